"""Determinism self-test (DESIGN §2.7): N run indices x several executions each, across worker counts 16/4/1, a second
VERIF-independent interpreter with another PYTHONHASHSEED; the per-run trace digests must be identical everywhere.
usage: python -m selftest.determinism [PROP ...] [--runs N]"""
import json
import os
import subprocess
import sys
import tempfile
import time

VERIF = os.path.dirname(os.path.dirname(os.path.abspath(__file__)))


def run(prop, runs, workers, hashseed, seed, tmp, tag):
    path = os.path.join(tmp, f'{prop}-{tag}.json')
    env = dict(os.environ, PYTHONHASHSEED=str(hashseed), VERIF_SEED=str(seed))
    cp = subprocess.run([os.path.join(VERIF, 'check'), prop, 'quick', '--runs', str(runs), '--workers', str(workers), '--no-evidence',
                         '--dump-digests', path, '--wall', '3000'], capture_output=True, text=True, env=env)
    if cp.returncode != 0:
        print(cp.stdout[-2000:], cp.stderr[-2000:])
        raise SystemExit(f'check {prop} exited {cp.returncode} in determinism self-test ({tag})')
    return json.load(open(path))


def main(argv):
    runs = 600
    props = []
    it = iter(argv)
    for a in it:
        if a == '--runs':
            runs = int(next(it))
        else:
            props.append(a.upper())
    props = props or ['C07', 'C11', 'C10']
    ok = True
    report = []
    with tempfile.TemporaryDirectory(prefix='numqi_verif_det_') as tmp:
        for prop in props:
            t0 = time.time()
            for seed in (0, 12345):
                base = run(prop, runs, 16, 0, seed, tmp, f's{seed}-w16-h0')
                variants = {
                    'w16-h0-again': run(prop, runs, 16, 0, seed, tmp, f's{seed}-w16-h0b'),
                    'w4-h1': run(prop, runs, 4, 1, seed, tmp, f's{seed}-w4-h1'),
                    'w1-h777': run(prop, max(runs // 6, 50), 1, 777, seed, tmp, f's{seed}-w1-h777'),
                }
                for name, d in variants.items():
                    diff = [k for k in d if base.get(k) != d[k]]
                    report.append({'property': prop, 'seed': seed, 'variant': name, 'runs_compared': len(d), 'diverging_runs': diff[:10]})
                    print(f"{'OK  ' if not diff else 'FAIL'} {prop} seed={seed} {name}: {len(d)} runs compared, {len(diff)} diverge {diff[:5]}", flush=True)
                    ok &= not diff
            print(f'{prop} done in {time.time()-t0:.0f}s', flush=True)
    with open(os.path.join(VERIF, 'selftest', 'determinism_result.json'), 'w') as f:
        json.dump(report, f, indent=1)
    print('ALL OK' if ok else 'NONDETERMINISM FOUND')
    return 0 if ok else 1


if __name__ == '__main__':
    sys.exit(main(sys.argv[1:]))
