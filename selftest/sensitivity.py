"""Sensitivity self-test (DESIGN §2.7): every planted defect must be caught by its property's quick check (exit 1 with a
VIOLATION line and a replay file that reproduces), every negative control must pass (exit 0).
usage: python -m selftest.sensitivity [name-substring ...]"""
import json
import os
import subprocess
import sys
import time

VERIF = os.path.dirname(os.path.dirname(os.path.abspath(__file__)))


def main(argv):
    sys.path.insert(0, VERIF)
    from selftest.mutants import MUTANTS
    names = [n for n in MUTANTS if (not argv and MUTANTS[n][1] is not None) or any(a in n for a in argv)]
    out = []
    ok_all = True
    for n in names:
        prop, expect, desc, _ = MUTANTS[n]
        env = dict(os.environ, NUMQI_VERIF_MUTANT=n)
        t0 = time.time()
        cp = subprocess.run([os.path.join(VERIF, 'check'), prop, 'quick', '--no-evidence'], capture_output=True, text=True, env=env)
        dt = time.time() - t0
        viol = [l for l in cp.stdout.splitlines() if l.startswith('violation ') or l.startswith('VIOLATION')]
        caught = (cp.returncode == 1) and any(l.startswith('VIOLATION') for l in viol)
        ok = ((caught == expect) and cp.returncode in (0, 1)) if expect is not None else (cp.returncode == 2 and dt < 400)
        ok_all &= ok
        oracles = sorted({l.split('oracle=')[1].split()[0] + ':' + l.split('api=')[1].split()[0] for l in viol if l.startswith('violation ')})
        print(f"{'OK  ' if ok else 'FAIL'} {n:42s} {prop} expect={'caught' if expect else 'clean '} got exit={cp.returncode} {dt:5.1f}s {oracles}", flush=True)
        if not ok:
            print(cp.stdout[-1500:], cp.stderr[-1500:])
        out.append({'mutant': n, 'property': prop, 'expect_violation': expect, 'description': desc, 'exit': cp.returncode, 'caught': caught,
                    'oracles': oracles, 'wall_s': round(dt, 1), 'ok': ok})
    with open(os.path.join(VERIF, 'selftest', 'sensitivity_result.json'), 'w') as f:
        json.dump(out, f, indent=1)
    # replays written while mutants were active do not describe the real tree
    for fn in os.listdir(os.path.join(VERIF, 'replays')):
        if fn.endswith('.json'):
            os.remove(os.path.join(VERIF, 'replays', fn))
    print('ALL OK' if ok_all else 'SOME FAILED')
    return 0 if ok_all else 1


if __name__ == '__main__':
    sys.exit(main(sys.argv[1:]))
