"""Planted defects and negative controls for the sensitivity self-test (DESIGN §2.7), applied in-process by
monkeypatching numqi attributes right after import when NUMQI_VERIF_MUTANT=<name> is set. Nothing here touches /repo.

MUTANTS[name] = (property, expect_violation: bool, description, apply(nq))
"""
import itertools

import numpy as np

MUTANTS = {}


def mutant(name, prop, expect, desc):
    def deco(fn):
        MUTANTS[name] = (prop, expect, desc, fn)
        return fn
    return deco


def _replace_everywhere(old, new):
    """numqi modules do `from x import f`: replace every module-level reference to the same object"""
    import sys
    n = 0
    for k, m in list(sys.modules.items()):
        if (k == 'numqi' or k.startswith('numqi.')) and m is not None:
            for name, val in list(vars(m).items()):
                if val is old:
                    setattr(m, name, new)
                    n += 1
    return n


# =============================================================================================== C07
def _mk_recorders(nq, invalidate):
    C = nq.sim.clifford.CliffordCircuit

    def one(key):
        def hf0(self, index):
            index = int(index)
            assert index >= 0
            old_n = max([y for x in self.gate_index_list for y in x[1:]], default=-1)
            self.gate_index_list.append((key, index))
            invalidate(self, old_n)
        return hf0

    def two(key):
        def hf0(self, index0, index1):
            index0, index1 = int(index0), int(index1)
            assert (index0 >= 0) and (index1 >= 0) and (index0 != index1)
            old_n = max([y for x in self.gate_index_list for y in x[1:]], default=-1)
            self.gate_index_list.append((key, index0, index1))
            invalidate(self, old_n)
        return hf0
    for k in ['X', 'Y', 'Z', 'H', 'S']:
        setattr(C, k, one(k))
    for k in ['CX', 'CY', 'CZ']:
        setattr(C, k, two(k))
    C.CNOT = C.CX


@mutant('m07_stale_memo', 'C07', True, 'pre-fix behaviour: appending a gate does not invalidate the memoised tableau')
def _(nq):
    _mk_recorders(nq, lambda self, old_n: None)


@mutant('m07_memo_keyed_on_qubits', 'C07', True, 'memo invalidated only when the number of qubits grows')
def _(nq):
    def inv(self, old_n):
        new_n = max(y for x in self.gate_index_list for y in x[1:])
        if new_n != old_n:
            self._R = None
            self._S = None
    _mk_recorders(nq, inv)


def _to_symplectic_form_variant(nq, reverse=True, dagger=True, tear=False, corrupt_cache=False):
    cl = nq.sim.clifford

    def to_symplectic_form(self):
        if self._R is None:
            num_qubit = self.num_qubit
            R0 = np.zeros(2 * num_qubit, dtype=np.uint8)
            S0 = np.eye(2 * num_qubit, dtype=np.uint8)
            retR, retS = R0.copy(), S0.copy()
            gl = self.gate_index_list[::-1] if reverse else self.gate_index_list
            for gate in gl:
                if len(gate) == 2:
                    index = np.array([gate[1], gate[1] + num_qubit], dtype=np.int32)
                else:
                    index = np.array([gate[1], gate[2], gate[1] + num_qubit, gate[2] + num_qubit], dtype=np.int32)
                if dagger:
                    tmp0 = cl._basic_clifford_dagger_f2(gate[0])
                else:
                    tmp0 = cl.clifford_array_to_F2(cl._basic_clifford_dict[gate[0]])
                if corrupt_cache and gate[0] == 'S' and len(self.gate_index_list) >= 3:
                    tmp0[0][0] ^= 1  # in-place "normalisation" of a cached basic tableau
                tmpR, tmpS = R0.copy(), S0.copy()
                tmpR[index] = tmp0[0]
                tmpS[index[:, np.newaxis], index] = tmp0[1]
                retR, retS = cl.clifford_multiply(retR, retS, tmpR, tmpS)
            if tear:
                self._R = retR
                cl.clifford_multiply(R0, S0, R0, S0)  # a call between the two stores: an interrupt can land here
                self._S = retS
            else:
                self._R, self._S = retR, retS
            return retR, retS
        return self._R, self._S
    cl.CliffordCircuit.to_symplectic_form = to_symplectic_form


@mutant('m07_memo_torn_write', 'C07', True, 'memo written in two steps with a call in between (tears under an injected interrupt)')
def _(nq):
    _to_symplectic_form_variant(nq, tear=True)


@mutant('m07_not_reversed', 'C07', True, 'gate loop not reversed when accumulating the tableau')
def _(nq):
    _to_symplectic_form_variant(nq, reverse=False)


@mutant('m07_no_dagger', 'C07', True, 'basic gate tableau not daggered')
def _(nq):
    _to_symplectic_form_variant(nq, dagger=False)


@mutant('m07_cache_mutated_in_place', 'C07', True, 'a cached basic tableau is modified in place (visible only in later circuits)')
def _(nq):
    _to_symplectic_form_variant(nq, corrupt_cache=True)


@mutant('m07_delta_dropped', 'C07', True, 'delta//2 dropped in clifford_multiply')
def _(nq):
    cl = nq.sim.clifford

    def clifford_multiply(rx, Sx, ry, Sy):
        N0 = rx.shape[0] // 2
        Sz = (Sy @ Sx) % 2
        tmp0 = np.triu(np.ones(2 * N0, dtype=np.uint8), k=1)
        tmp1 = np.einsum(Sx, [1, 0], Sx, [2, 0], Sy[N0:], [3, 1], Sy[:N0], [3, 2], tmp0, [1, 2], [0], optimize=True)
        rz = (rx + ry @ Sx + tmp1) % 2
        return rz.astype(np.uint8), Sz.astype(np.uint8)
    cl.clifford_multiply = clifford_multiply


@mutant('m07_cy_exported_as_x', 'C07', True, 'to_universal_circuit exports CY as controlled-X')
def _(nq):
    def to_universal_circuit(self):
        ret = nq.sim.Circuit()
        tmp0 = {'X': nq.gate.X, 'Y': nq.gate.Y, 'Z': nq.gate.Z, 'H': nq.gate.H, 'S': nq.gate.S, 'CX': nq.gate.X, 'CY': nq.gate.X, 'CZ': nq.gate.Z}
        for gate in self.gate_index_list:
            if len(gate) == 2:
                ret.single_qubit_gate(tmp0[gate[0]], gate[1])
            else:
                ret.controlled_single_qubit_gate(tmp0[gate[0]], gate[1], gate[2])
        return ret
    nq.sim.clifford.CliffordCircuit.to_universal_circuit = to_universal_circuit


@mutant('m07_phase_bit_triu_dropped', 'C07', True, 'apply_clifford_on_pauli drops the upper-triangular cross term of the phase')
def _(nq):
    cl = nq.sim.clifford

    def apply_clifford_on_pauli(pauli_bit, cli_r, cli_mat):
        N0 = cli_r.shape[0] // 2
        XZin = pauli_bit[2:]
        XZout = (cli_mat @ XZin) % 2
        delta = pauli_bit[1] + np.dot((cli_mat[:N0] * XZin).reshape(-1), cli_mat[N0:].reshape(-1))
        bit1 = delta % 2
        tmp1 = ((delta % 4) // 2).astype(np.uint8)
        bit0 = (pauli_bit[0] + np.dot(XZin, cli_r) + tmp1) % 2
        return np.concatenate([np.array([bit0, bit1], dtype=np.uint8), XZout], axis=0)
    cl.apply_clifford_on_pauli = apply_clifford_on_pauli


@mutant('n07_no_memo', 'C07', False, 'negative control: no memo at all (always recompute)')
def _(nq):
    C = nq.sim.clifford.CliffordCircuit
    orig = C.to_symplectic_form

    def to_symplectic_form(self):
        self._R = None
        self._S = None
        return orig(self)
    C.to_symplectic_form = to_symplectic_form


# =============================================================================================== C10
@mutant('m10_bipartite_positional_rng', 'C10', True, 'pre-fix: rand_bipartite_state passes the generator positionally into tag_complex')
def _(nq):
    ri = nq.random._internal
    orig = ri.rand_bipartite_state

    def rand_bipartite_state(dimA, dimB=None, k=None, seed=None, return_dm=False):
        if k is not None:
            return orig(dimA, dimB, k, seed, return_dm)
        np_rng = ri.get_numpy_rng(seed)
        if dimB is None:
            dimB = dimA
        ret = ri.rand_haar_state(dimA * dimB, np_rng)
        if return_dm:
            ret = ret[:, np.newaxis] * ret.conj()
        return ret
    _replace_everywhere(orig, rand_bipartite_state)


@mutant('m10_clifford_unseeded_phase', 'C10', True, 'pre-fix: rand_Clifford_group draws cli_r without the seed')
def _(nq):
    sp = nq.random._spf2
    orig = sp.rand_Clifford_group

    def rand_Clifford_group(n, seed=None):
        rng = sp.get_random_rng(seed)
        cli_r = sp.rand_F2(2 * n)
        cli_mat = sp.rand_SpF2(n, seed=rng.randint(0, 2 ** 32 - 1))
        return cli_r, cli_mat
    _replace_everywhere(orig, rand_Clifford_group)


@mutant('m10_get_numpy_rng_ignores_int', 'C10', True, 'get_numpy_rng ignores integer seeds')
def _(nq):
    pub = nq.random._public
    orig = pub.get_numpy_rng

    def get_numpy_rng(rng_or_seed=None):
        if isinstance(rng_or_seed, np.random.Generator):
            return rng_or_seed
        return np.random.default_rng()
    _replace_everywhere(orig, get_numpy_rng)


@mutant('m10_separable_nested_unseeded', 'C10', True, 'rand_separable_dm drops the generator on one nested call')
def _(nq):
    ri = nq.random._internal
    orig = ri.rand_separable_dm

    def rand_separable_dm(dimA, dimB=None, k=2, seed=None, pure_term=False):
        if dimB is None:
            dimB = dimA
        np_rng = ri.get_numpy_rng(seed)
        probability = np_rng.uniform(0, 1, size=k)
        probability /= probability.sum()
        ret = 0
        for ind0 in range(k):
            if pure_term:
                tmp0 = ri.rand_haar_state(dimA, seed=np_rng)
                tmp1 = ri.rand_haar_state(dimB, seed=np_rng)
                tmp = np.kron(tmp0, tmp1)
                ret = ret + probability[ind0] * tmp[:, np.newaxis] * tmp.conj()
            else:
                tmp0 = ri.rand_density_matrix(dimA, kind='haar', seed=np_rng)
                tmp1 = ri.rand_density_matrix(dimB, kind='haar')  # <- generator dropped
                ret = ret + probability[ind0] * np.kron(tmp0, tmp1)
        return ret
    _replace_everywhere(orig, rand_separable_dm)


@mutant('m10_minimize_theta0_unseeded', 'C10', True, 'minimize draws theta0 from an unseeded generator when num_repeat>1')
def _(nq):
    oi = nq.optimize._internal
    orig_get = oi._get_hf_theta
    state = {'n': 0}

    def _get_hf_theta(np_rng, key=None):
        hf = orig_get(np_rng, key)
        hf2 = orig_get(np.random.default_rng(), key)
        cnt = itertools.count()

        def wrapped(*a):
            return hf(*a) if next(cnt) == 0 else hf2(*a)  # only repeats after the first use the wrong generator
        return wrapped
    oi._get_hf_theta = _get_hf_theta


@mutant('m10_sphere_global_rng', 'C10', True, 'rand_n_ball draws its radius from the global numpy generator')
def _(nq):
    ri = nq.random._internal
    orig = ri.rand_n_ball

    def rand_n_ball(dim, size=None, seed=None):
        np_rng = ri.get_numpy_rng(seed)
        is_single = (size is None)
        if is_single:
            size = ()
        elif not hasattr(size, '__len__'):
            size = int(size),
        N0 = 1 if (len(size) == 0) else np.prod(size)
        tmp0 = np_rng.normal(size=(N0, dim))
        tmp0 /= np.linalg.norm(tmp0, axis=-1, keepdims=True)
        tmp1 = np.random.uniform(0, 1, size=N0) ** (1 / dim)
        tmp2 = tmp0 * tmp1[:, np.newaxis]
        return tmp2[0] if is_single else tmp2.reshape(size + (dim,))
    _replace_everywhere(orig, rand_n_ball)


@mutant('m10_dm_no_trace_division', 'C10', True, 'rand_density_matrix(kind=bures) forgets the trace normalisation')
def _(nq):
    ri = nq.random._internal
    orig = ri.rand_density_matrix

    def rand_density_matrix(dim, k=None, kind='haar', seed=None):
        if kind == 'haar':
            return orig(dim, k, kind, seed)
        np_rng = ri.get_numpy_rng(seed)
        if k is None:
            k = dim
        tmp0 = ri._random_complex(dim, k, seed=np_rng)
        g = (ri.rand_haar_unitary(dim, seed=np_rng) + np.eye(dim)) @ tmp0
        return g @ g.T.conj()
    _replace_everywhere(orig, rand_density_matrix)


@mutant('m10_kraus_real_branch_unnormalised', 'C10', True, 'rand_kraus_op(tag_complex=False) skips the inverse square root')
def _(nq):
    ri = nq.random._internal
    orig = ri.rand_kraus_op

    def rand_kraus_op(num_term, dim_in, dim_out, tag_complex=True, seed=None):
        if tag_complex:
            return orig(num_term, dim_in, dim_out, tag_complex, seed)
        np_rng = ri.get_numpy_rng(seed)
        z0 = np_rng.normal(size=(num_term, dim_out, dim_in))
        return z0 / np.sqrt((z0 ** 2).sum())
    _replace_everywhere(orig, rand_kraus_op)


@mutant('m10_pauli_hermitian_flag_inverted', 'C10', True, 'rand_pauli(is_hermitian=False) returns a Hermitian operator when n is even')
def _(nq):
    sp = nq.random._spf2
    orig = sp.rand_pauli

    def rand_pauli(n, is_hermitian=None, seed=None):
        ret = orig(n, is_hermitian, seed)
        if is_hermitian is False and n % 2 == 0:
            ret.F2[1] = 1 - ret.F2[1]
        return ret
    _replace_everywhere(orig, rand_pauli)


@mutant('m10_measure_seed_dropped_in_gate', 'C10', True, 'MeasureGate builds its generator without the seed')
def _(nq):
    M = nq.sim.circuit.MeasureGate
    orig = M.__init__

    def __init__(self, index, seed=None, name='measure'):
        orig(self, index, None if isinstance(seed, (int, np.integer)) else seed, name)
    M.__init__ = __init__


@mutant('m10_cha_retry_unseeded', 'C10', True, 'CHABoundaryBagging re-draws initial states from an unseeded generator after a failed initial solve')
def _(nq):
    C = nq.entangle.cha.CHABoundaryBagging
    orig = C._rand_init_state

    def _rand_init_state(self, np_rng, max_retry):
        calls = itertools.count()

        class G:
            def normal(_, *a, **k):
                g = np_rng if next(calls) < 2 else np.random.default_rng()
                return g.normal(*a, **k)
        return orig(self, G(), max_retry)
    C._rand_init_state = _rand_init_state


@mutant('n10_qr_sign_fix_removed', 'C10', False, 'negative control: rand_haar_unitary without the sign fix (still unitary, still seeded)')
def _(nq):
    ri = nq.random._internal
    orig = ri.rand_haar_unitary

    def rand_haar_unitary(dim, seed=None):
        g = ri._random_complex(dim, dim, seed=seed)
        return np.linalg.qr(g)[0]
    _replace_everywhere(orig, rand_haar_unitary)


@mutant('n10_default_rng_inlined', 'C10', False, 'negative control: get_numpy_rng inlined as default_rng(seed)')
def _(nq):
    pub = nq.random._public
    orig = pub.get_numpy_rng

    def get_numpy_rng(rng_or_seed=None):
        if isinstance(rng_or_seed, np.random.Generator):
            return rng_or_seed
        return np.random.default_rng(None if rng_or_seed is None else int(rng_or_seed))
    _replace_everywhere(orig, get_numpy_rng)


# =============================================================================================== C11
def _measure_variant(nq, norm_bug=False, not_squared=False, no_renorm=False, reverse_bits=False, unravel_f=False):
    st = nq.sim.state

    def measure_quantum_vector(q0, index, seed=None):
        np_rng = nq.random.get_numpy_rng(seed)
        index = nq.utils.hf_tuple_of_int(index)
        assert all(x == y for x, y in zip(sorted(index), index)), 'index must be sorted'
        num_qubit = nq.utils.hf_num_state_to_num_qubit(q0.shape[0])
        shape, keep_dim, reduce_dim = st._measure_quantum_vector_hf0(num_qubit, index)
        q1 = q0.reshape(shape)
        if len(reduce_dim) > 0:
            if norm_bug:
                prob = np.linalg.norm(q1, axis=reduce_dim).reshape(-1) ** 2
            elif not_squared:
                prob = np.abs(q1).sum(axis=reduce_dim).reshape(-1)
                prob = prob / prob.sum()
            else:
                prob = (np.abs(q1) ** 2).sum(axis=reduce_dim).reshape(-1)
        else:
            prob = np.abs(q1.reshape(-1)) ** 2
        ind1 = np_rng.choice(len(prob), p=prob)
        bitstr = [int(x) for x in bin(ind1)[2:].rjust(len(index), '0')]
        if reverse_bits:
            bitstr = bitstr[::-1]
        kshape = tuple(shape[x] for x in keep_dim)
        ind1a = np.unravel_index(ind1, kshape, order='F') if unravel_f else np.unravel_index(ind1, kshape)
        ind2 = [slice(None)] * len(shape)
        for x, y in zip(keep_dim, ind1a):
            ind2[x] = y
        ind2 = tuple(ind2)
        q2 = np.zeros_like(q1)
        q2[ind2] = q1[ind2] if no_renorm else q1[ind2] / np.sqrt(prob[ind1])
        return bitstr, prob, q2.reshape(-1)
    st.measure_quantum_vector = measure_quantum_vector


@mutant('m11_norm_over_many_axes', 'C11', True, 'pre-fix: np.linalg.norm over >2 axes')
def _(nq):
    _measure_variant(nq, norm_bug=True)


@mutant('m11_prob_not_squared', 'C11', True, 'marginals from |amplitude| instead of |amplitude|^2')
def _(nq):
    _measure_variant(nq, not_squared=True)


@mutant('m11_no_renormalisation', 'C11', True, 'post-measurement state not renormalised')
def _(nq):
    _measure_variant(nq, no_renorm=True)


@mutant('m11_bitstr_reversed', 'C11', True, 'bit string reversed')
def _(nq):
    _measure_variant(nq, reverse_bits=True)


@mutant('m11_unravel_wrong_order', 'C11', True, 'outcome index unravelled in Fortran order')
def _(nq):
    _measure_variant(nq, unravel_f=True)


@mutant('m11_probability_not_stored', 'C11', True, 'MeasureGate.forward does not refresh .probability after the first run')
def _(nq):
    M = nq.sim.circuit.MeasureGate

    def forward(self, q0):
        self.bitstr, prob, q1 = nq.sim.state.measure_quantum_vector(q0, self.index, self.np_rng)
        if self.probability is None:
            self.probability = prob
        return q1
    M.forward = forward


@mutant('m11_shift_keeps_measure_index', 'C11', True, 'shift_qubit_index_ does not update the MeasureGate index')
def _(nq):
    C = nq.sim.circuit.Circuit
    CAN = nq.sim.circuit.CANONICAL_GATE_KIND

    def shift_qubit_index_(self, delta):
        if delta != 0:
            for ind0 in range(len(self.gate_index_list)):
                gate_i, index_i = self.gate_index_list[ind0]
                if gate_i.kind in CAN:
                    if gate_i.kind == 'unitary':
                        self.gate_index_list[ind0] = gate_i, tuple(x + delta for x in index_i)
                    elif gate_i.kind == 'control':
                        self.gate_index_list[ind0] = gate_i, ({(x + delta) for x in index_i[0]}, tuple((x + delta) for x in index_i[1]))
                    elif gate_i.kind == 'measure':
                        self.gate_index_list[ind0] = gate_i, tuple(x + delta for x in index_i)
    C.shift_qubit_index_ = shift_qubit_index_


@mutant('m11_grouping_keyed_without_num_qubit', 'C11', True, 'cached grouping keyed on the index tuple only')
def _(nq):
    import functools
    st = nq.sim.state
    orig = st._measure_quantum_vector_hf0.__wrapped__
    cache = {}

    def hf0(num_qubit, index):
        if index not in cache:
            cache[index] = orig(num_qubit, index)
        return cache[index]
    hf0.cache_clear = lambda: None  # survives the simulator's cache wipes, as a hand-rolled dict cache would
    st._measure_quantum_vector_hf0 = hf0


@mutant('m11_outcome_from_stale_rng_state', 'C11', True, 'second and later runs of a circuit reuse the first recorded bit string for classical control')
def _(nq):
    M = nq.sim.circuit.MeasureGate

    def forward(self, q0):
        bs, self.probability, q1 = nq.sim.state.measure_quantum_vector(q0, self.index, self.np_rng)
        if self.bitstr is None:
            self.bitstr = bs
        return q1
    M.forward = forward


@mutant('m11_own_sampler_never_last_outcome', 'C11', True, "the library's own sampler (integer seed) never returns the last outcome with non-zero probability")
def _(nq):
    st = nq.sim.state
    orig = st.measure_quantum_vector

    def measure_quantum_vector(q0, index, seed=None):
        if isinstance(seed, np.random.Generator):
            return orig(q0, index, seed)

        class G(np.random.Generator):
            def choice(self, a, size=None, replace=True, p=None, axis=0, shuffle=True):
                p = np.asarray(p)
                nz = np.nonzero(p > 1e-12)[0]
                if len(nz) > 1:
                    p = p.copy()
                    p[nz[-1]] = 0
                    p = p / p.sum()
                return super().choice(a, size=size, replace=replace, p=p, axis=axis, shuffle=shuffle)
        return orig(q0, index, G(np.random.PCG64(seed)))
    st.measure_quantum_vector = measure_quantum_vector


@mutant('n11_no_grouping_cache', 'C11', False, 'negative control: grouping recomputed without cache')
def _(nq):
    st = nq.sim.state
    orig = st._measure_quantum_vector_hf0.__wrapped__
    st._measure_quantum_vector_hf0 = orig


@mutant('h11_hangs_on_one_subset', 'C11', None, 'harness robustness: measuring qubits (0,2) of 4 never returns; the quick check must end with HARNESS-ERROR (exit 2) within minutes, not hang')
def _(nq):
    st = nq.sim.state
    orig = st.measure_quantum_vector

    def measure_quantum_vector(q0, index, seed=None):
        if tuple(nq.utils.hf_tuple_of_int(index)) == (0, 2) and q0.shape[0] == 16:
            while True:
                pass
        return orig(q0, index, seed)
    st.measure_quantum_vector = measure_quantum_vector


# =============================================================================================== round 10 (DESIGN §8.8)
def _staged_multiply(nq, per_thread):
    import threading
    cl = nq.sim.clifford
    orig = cl.clifford_multiply
    shared = {}
    tl = threading.local()

    def clifford_multiply(rx, Sx, ry, Sy):
        n2 = rx.shape[0]
        store = tl.__dict__ if per_thread else shared
        buf = store.get(n2)
        if buf is None:
            buf = store[n2] = np.zeros((n2, n2), dtype=np.uint8)
        buf[...] = Sy  # operand staged in a per-register-size work array
        return orig(rx, Sx, ry, buf)  # numqi code runs here: another caller thread may be scheduled before buf is read
    _replace_everywhere(orig, clifford_multiply)


@mutant('m07_shared_work_array_threads', 'C07', True, 'clifford_multiply stages an operand in a module-level per-size work array: exact single-threaded, wrong when two caller threads with their own circuits interleave')
def _(nq):
    _staged_multiply(nq, per_thread=False)


@mutant('n07_thread_local_work_array', 'C07', False, 'negative control: the same staging in a thread-local work array')
def _(nq):
    _staged_multiply(nq, per_thread=True)


def _shift_variant(nq, refuse_cleanly):
    ci = nq.sim.circuit

    def shift_qubit_index_(self, delta):
        if delta != 0:
            if refuse_cleanly:
                ids = [id(g) for g, _ in self.gate_index_list if g.kind == 'measure']
                assert len(ids) == len(set(ids)), 'a measure gate shared between positions cannot be shifted'
            for ind0 in range(len(self.gate_index_list)):
                gate_i, index_i = self.gate_index_list[ind0]
                if gate_i.kind in ci.CANONICAL_GATE_KIND:
                    if gate_i.kind == 'unitary':
                        self.gate_index_list[ind0] = gate_i, tuple(x + delta for x in index_i)
                    elif gate_i.kind == 'control':
                        self.gate_index_list[ind0] = gate_i, ({(x + delta) for x in index_i[0]}, tuple((x + delta) for x in index_i[1]))
                    elif gate_i.kind == 'measure':
                        tmp0 = tuple(x + delta for x in gate_i.index)
                        self.gate_index_list[ind0] = gate_i, tmp0
                        gate_i.index = tmp0
    ci.Circuit.shift_qubit_index_ = shift_qubit_index_


@mutant('m11_shared_gate_shifted_k_times', 'C11', True, 'shift_qubit_index_ accepts a MeasureGate object that occurs k times and shifts it k*delta')
def _(nq):
    _shift_variant(nq, refuse_cleanly=False)


@mutant('n11_shared_gate_shift_refused_up_front', 'C11', False, 'negative control: shift_qubit_index_ refuses a shared MeasureGate before touching anything')
def _(nq):
    _shift_variant(nq, refuse_cleanly=True)


@mutant('m10_active_generator_global_threads', 'C10', True, '_random_complex parks the seeded generator in a module-level "current generator" slot between creating and using it: exact single-threaded, draws from another call\'s generator when two caller threads interleave')
def _(nq):
    ri = nq.random._internal
    orig = ri._random_complex
    active = [None]

    def _random_complex(*size, seed=None):
        active[0] = ri.get_numpy_rng(seed)
        ri.get_numpy_rng(active[0])  # numqi code between the store and the use: a pre-emption point
        return active[0].normal(size=size + (2,)).astype(np.float64, copy=False).view(np.complex128).reshape(size)
    _replace_everywhere(orig, _random_complex)


def apply_from_env(nq):
    import os
    name = os.environ.get('NUMQI_VERIF_MUTANT')
    if not name:
        return None
    if name not in MUTANTS:
        raise RuntimeError(f'unknown mutant {name}')
    MUTANTS[name][3](nq)
    return name
