"""Seams: every source of nondeterminism the three simulated properties touch, owned by the simulator
(DESIGN §2.2). Everything is installed by attribute replacement for the duration of a run and restored
afterwards; nothing is compiled into husisy/numqi.
"""
import functools
import random as _random
import sys
import types

import numpy as np

_ORIG_DEFAULT_RNG = np.random.default_rng
_ORIG_RANDOM = _random.Random


def numqi_modules():
    return {k: v for k, v in sorted(sys.modules.items()) if (k == 'numqi' or k.startswith('numqi.')) and v is not None}


def _numqi_call_site():
    """file:function of the innermost numqi frame on the stack (for the unseeded_draws probe); no clock, no PRNG"""
    f = sys._getframe(2)
    while f is not None:
        fn = f.f_code.co_filename
        if '/numqi/' in fn:
            return fn.split('/numqi/', 1)[1] + ':' + f.f_code.co_name
        f = f.f_back
    return 'outside-numqi'


class Entropy:
    """the sim-owned replacement for OS entropy: a counter-mode stream derived from the run's `entropy` sub-stream"""

    def __init__(self, rng: _random.Random):
        self.rng = rng
        self.draws = 0
        self.sites = {}

    def next(self) -> int:
        self.draws += 1
        site = _numqi_call_site()
        self.sites[site] = self.sites.get(site, 0) + 1
        return self.rng.getrandbits(64)


class _SimRandomMeta(type):
    def __instancecheck__(cls, obj):
        return isinstance(obj, _ORIG_RANDOM)


class World:
    """context manager: installs all seams, resets all hidden state, restores on exit"""

    def __init__(self, entropy_rng: _random.Random, lru_maxsize=None, clock=None):
        self.entropy = Entropy(entropy_rng)
        self.lru_maxsize = lru_maxsize
        self.clock = clock
        self._undo = []
        self._cache_slots = []  # (module, name, original wrapper)
        self.cache_wipes = 0

    # -- install / restore -------------------------------------------------------------------------------------
    def __enter__(self):
        ent = self.entropy

        def default_rng(seed=None):
            if seed is None:
                return _ORIG_DEFAULT_RNG(ent.next())
            return _ORIG_DEFAULT_RNG(seed)
        self._set(np.random, 'default_rng', default_rng)

        class SimRandom(_ORIG_RANDOM, metaclass=_SimRandomMeta):
            def __init__(self, x=None):
                if x is None:
                    x = ent.next()
                super().__init__(x)

            def seed(self, a=None, version=2):
                # random.Random.__new__/__init__ call seed(); an explicit None means "OS entropy"
                if a is None:
                    a = ent.next()
                super().seed(a, version)
        self._set(_random, 'Random', SimRandom)

        if self.clock is not None:
            import numqi.optimize._internal as m
            self._set(m, 'time', self.clock.as_module())

        self._collect_caches()
        if self.lru_maxsize is not None:
            self._rewrap_caches(self.lru_maxsize)
        self.reset_hidden_state()
        return self

    def __exit__(self, *exc):
        for obj, name, old in reversed(self._undo):
            setattr(obj, name, old)
        self._undo.clear()
        self.cache_wipe()
        return False

    def _set(self, obj, name, new):
        self._undo.append((obj, name, getattr(obj, name)))
        setattr(obj, name, new)

    # -- memo tables -------------------------------------------------------------------------------------------
    def _collect_caches(self):
        seen = {}
        for mname, mod in numqi_modules().items():
            for name, val in list(vars(mod).items()):
                if callable(val) and hasattr(val, 'cache_clear') and hasattr(val, '__wrapped__'):
                    seen.setdefault(id(val), (val, []))[1].append((mod, name))
        self._caches = list(seen.values())

    def _rewrap_caches(self, maxsize):
        new_caches = []
        for val, slots in self._caches:
            new = functools.lru_cache(maxsize=maxsize)(val.__wrapped__)
            for mod, name in slots:
                self._set(mod, name, new)
            new_caches.append((new, slots))
        self._caches = new_caches

    def num_caches(self):
        return len(self._caches)

    def cache_wipe(self):
        for val, _ in self._caches:
            val.cache_clear()
        m = sys.modules.get('numqi.sim.clifford')
        d = getattr(m, '_basic_clifford_dagger_f2_cache', None) if m is not None else None
        if isinstance(d, dict):
            d.clear()
        self.cache_wipes += 1

    # -- global generators -------------------------------------------------------------------------------------
    def reseed_globals(self):
        import torch
        r = self.entropy.rng
        np.random.seed(r.getrandbits(32))
        _random.seed(r.getrandbits(64))
        torch.manual_seed(r.getrandbits(63))

    def reset_hidden_state(self):
        """a run's trace must be a function of its Plan alone, not of what the worker ran before"""
        import torch
        self.cache_wipe()
        self.cache_wipes -= 1
        self.reseed_globals()
        if self.clock is not None:
            self.clock.now = 0.0
        if not torch.is_grad_enabled():
            torch.set_grad_enabled(True)

    def perturb_global(self, which: str, n: int):
        import torch
        if which == 'numpy':
            np.random.rand(n)
        elif which == 'python':
            for _ in range(n):
                _random.random()
        elif which == 'torch':
            torch.rand(n)
        else:
            raise ValueError(which)

    def reseed_global(self, which: str, s: int):
        import torch
        if which == 'numpy':
            np.random.seed(int(s) % (2**32))
        elif which == 'python':
            _random.seed(int(s))
        elif which == 'torch':
            torch.manual_seed(int(s) % (2**63))
        else:
            raise ValueError(which)


def third_party_state_restore():
    """after an injected exception, restore interpreter-global state owned by third parties (never a numqi violation)"""
    import torch
    n = 0
    if not torch.is_grad_enabled():
        torch.set_grad_enabled(True)
        n += 1
    if torch.is_inference_mode_enabled():
        n += 1  # cannot be force-reset; reported
    return n


class VirtualClock:
    """advances only when the scheduler says so; can jump backwards or by 1e9 s"""

    def __init__(self):
        self.now = 0.0
        self.reads = 0
        self.script = []  # deltas applied at successive reads (then 0)
        self.total_advance = 0.0

    def time(self):
        self.reads += 1
        if self.script:
            d = self.script.pop(0)
            self.now += d
            self.total_advance += abs(d)
        return self.now

    def jump(self, d):
        self.now += d
        self.total_advance += abs(d)

    def as_module(self):
        import time as real
        clk = self
        m = types.ModuleType('simkit_virtual_time')
        m.time = clk.time
        m.perf_counter = clk.time
        m.monotonic = clk.time
        m.sleep = lambda s: clk.jump(s)
        m.__getattr__ = lambda name: getattr(real, name)
        return m


class ScriptedGenerator(np.random.Generator):
    """a numpy Generator whose discrete choices are made by the scheduler.

    `choice(n, p=p)` first runs numpy's own `choice` (so numpy's validation of `p` is real code) and then, if a
    scripted pick is pending, returns the pick-th element of the support {i: p[i] > floor}. `integers(lo,hi)` returns
    the scheduled value modulo the range. Every call is logged. With an empty script it behaves as PCG64(seed).
    """

    def __init__(self, seed=0, script=(), floor=1e-6):
        super().__init__(np.random.PCG64(int(seed)))
        self.script = list(script)
        self.floor = floor
        self.calls = []

    def choice(self, a, size=None, replace=True, p=None, axis=0, shuffle=True):
        ret = super().choice(a, size=size, replace=replace, p=p, axis=axis, shuffle=shuffle)
        if self.script and (size is None) and (p is not None) and isinstance(a, (int, np.integer)):
            pick = self.script.pop(0)
            supp = np.nonzero(np.asarray(p) > self.floor)[0]
            if len(supp):
                ret = int(supp[pick % len(supp)])
                self.calls.append(('choice', int(a), ret, 'scripted'))
                return ret
        self.calls.append(('choice', None if not isinstance(a, (int, np.integer)) else int(a),
                           int(ret) if np.ndim(ret) == 0 else None, 'numpy'))
        return ret

    def integers(self, low, high=None, size=None, dtype=np.int64, endpoint=False):
        ret = super().integers(low, high=high, size=size, dtype=dtype, endpoint=endpoint)
        if self.script and size is None:
            lo, hi = (0, low) if high is None else (low, high)
            if endpoint:
                hi = hi + 1
            pick = self.script.pop(0)
            ret = dtype(lo + pick % (hi - lo)) if hi > lo else ret
            self.calls.append(('integers', int(lo), int(hi), int(ret), 'scripted'))
            return ret
        self.calls.append(('integers', None, None, None, 'numpy'))
        return ret

    def __deepcopy__(self, memo):
        import copy
        g = ScriptedGenerator(0, list(self.script), self.floor)
        g.bit_generator.state = copy.deepcopy(self.bit_generator.state)
        return g


class ForcedBitsGenerator(np.random.Generator):
    """scheduler-controlled discrete randomness: the first `m` calls of integers() return arrays filled with `value`
    (a legal draw of positive probability, however unlikely a run of them is), later calls are PCG64(seed)."""

    def __init__(self, seed=0, m=0, value=0):
        super().__init__(np.random.PCG64(int(seed)))
        self.m = int(m)
        self.value = int(value)
        self.forced = 0

    def integers(self, low, high=None, size=None, dtype=np.int64, endpoint=False):
        ret = super().integers(low, high=high, size=size, dtype=dtype, endpoint=endpoint)
        if self.forced < self.m:
            self.forced += 1
            lo, hi = (0, low) if high is None else (low, high)
            if endpoint:
                hi = hi + 1
            v = min(max(self.value, lo), hi - 1)
            return np.full_like(ret, v) if isinstance(ret, np.ndarray) else type(ret)(v)
        return ret
