"""simkit: deterministic simulation with fault injection for husisy/numqi (see DESIGN.md §2)."""
