"""One integer decides everything (DESIGN §2.1).

All choices of a run come from named sub-streams derived from (VERIF_SEED, property, tier, run index)
with sha256, each a Mersenne Twister `random.Random`, so adding a draw in one concern never shifts another.
Nothing in here reads a clock or OS entropy.
"""
import hashlib
import random


def h64(*parts) -> int:
    s = '\x1f'.join(str(p) for p in parts).encode()
    return int.from_bytes(hashlib.sha256(s).digest()[:8], 'big')


def run_seed(verif_seed: int, prop: str, tier: str, index: int) -> int:
    root = h64('root', int(verif_seed), prop, tier)
    return h64('run', root, int(index))


class Streams:
    """named, independent PRNG sub-streams of one run"""

    def __init__(self, seed: int):
        self.seed = int(seed)
        self._s = {}

    def __getitem__(self, label: str) -> random.Random:
        r = self._s.get(label)
        if r is None:
            r = random.Random(h64('stream', self.seed, label))
            self._s[label] = r
        return r


def weighted(rng: random.Random, table):
    """table: list of (item, weight>=0); deterministic given rng"""
    tot = sum(w for _, w in table)
    x = rng.random() * tot
    acc = 0.0
    for it, w in table:
        acc += w
        if x < acc:
            return it
    return table[-1][0]
