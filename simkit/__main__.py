import sys
if __name__ == '__main__':
    from simkit.driver import main
    sys.exit(main())
