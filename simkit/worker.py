"""Worker-side code: executes runs of one engine. Imported by name in spawned processes (never as __main__)."""
import faulthandler
import importlib
import os
import sys
import traceback

ENGINES = {
    'C07': 'engines.c07_clifford',
    'C10': 'engines.c10_seeded',
    'C11': 'engines.c11_measure',
}

_REPO_PY = os.path.realpath(os.environ.get('NUMQI_VERIF_REPO', '/repo') + '/python')


def pin_threads():
    for k in ('OMP_NUM_THREADS', 'MKL_NUM_THREADS', 'OPENBLAS_NUM_THREADS', 'NUMEXPR_NUM_THREADS', 'VECLIB_MAXIMUM_THREADS'):
        os.environ[k] = '1'


def import_sut():
    """numqi must come from the current working tree of /repo (editable install or sys.path), nothing else"""
    if _REPO_PY not in [os.path.realpath(p) for p in sys.path if p]:
        sys.path.insert(0, _REPO_PY)
    import numqi
    f = os.path.realpath(numqi.__file__)
    if not f.startswith(_REPO_PY + os.sep):
        raise RuntimeError(f'numqi imported from {f}, expected under {_REPO_PY}')
    import torch
    torch.set_num_threads(1)
    if os.environ.get('NUMQI_VERIF_MUTANT'):
        # sensitivity self-test only (DESIGN §2.7): planted defects are monkeypatched in-process, /repo is untouched
        from selftest import mutants
        if not getattr(numqi, '_verif_mutant_applied', None):
            numqi._verif_mutant_applied = mutants.apply_from_env(numqi)
    return numqi


def load_engine(prop):
    return importlib.import_module(ENGINES[prop])


def init_worker():
    pin_threads()
    import_sut()


def execute_guarded(engine, plan, keep_events=False):
    """returns the engine's result dict; an exception escaping the engine is a harness error, never a pass"""
    try:
        return engine.execute(plan, keep_events=keep_events)
    except BaseException:
        return {'harness_error': traceback.format_exc(), 'digest': None, 'violation': None, 'stats': {}, 'cover': {},
                'shape': '', 'nontrivial': False}


def run_in_child(fn, timeout_s):
    """fork, run fn() in the child from this process's pristine post-import state, return its (picklable) result.
    Every chunk / replay / shrink candidate starts from the same process state: numqi imported, nothing executed."""
    import pickle
    r, w = os.pipe()
    sys.stdout.flush()
    sys.stderr.flush()
    pid = os.fork()
    if pid == 0:
        code = 0
        try:
            os.close(r)
            faulthandler.dump_traceback_later(timeout_s, exit=True)
            res = fn()
            faulthandler.cancel_dump_traceback_later()
            data = pickle.dumps(res)
            with os.fdopen(w, 'wb') as f:
                f.write(data)
        except BaseException:
            traceback.print_exc()
            code = 3
        finally:
            os._exit(code)
    os.close(w)
    with os.fdopen(r, 'rb') as f:
        data = f.read()
    _, status = os.waitpid(pid, 0)
    if not data:
        raise RuntimeError(f'child process died without a result (wait status {status}; timeout {timeout_s}s or crash)')
    return pickle.loads(data)


def _prepare_parent(prop):
    if prop == 'C10':
        from simkit import pristine
        pristine.client().ensure_started()  # children inherit the pipes; one child at a time talks to it


def _chunk_body(prop, verif_seed, tier, indices, want_plans, per_run_timeout=None):
    from simkit import rng
    engine = load_engine(prop)
    out = []
    done = []
    for i in indices:
        if per_run_timeout:
            # per-run watchdog: a run that hangs kills this child after per_run_timeout seconds (the driver reports a harness error)
            faulthandler.cancel_dump_traceback_later()
            faulthandler.dump_traceback_later(per_run_timeout, exit=True)
        plan = engine.generate(rng.run_seed(verif_seed, prop, tier, i), i, tier)
        res = execute_guarded(engine, plan)
        res['index'] = i
        res['chunk_prefix'] = list(done)
        if i in want_plans:
            res['plan'] = plan
        out.append(res)
        done.append(i)
    return out


def run_chunk(prop, verif_seed, tier, indices, timeout_s, want_plans=()):
    """one chunk = one forked child = one deterministic multi-run history starting from the pristine state"""
    _prepare_parent(prop)
    return run_in_child(lambda: _chunk_body(prop, verif_seed, tier, indices, want_plans, per_run_timeout=timeout_s), timeout_s * max(1, len(indices)))


def execute_sequence(prop, plans, timeout_s, keep_events=False):
    """executes plans one after the other in ONE fresh child (the last one is the run of interest)"""
    _prepare_parent(prop)
    engine = load_engine(prop)

    def body():
        return [execute_guarded(engine, p, keep_events=(keep_events and j == len(plans) - 1)) for j, p in enumerate(plans)]
    return run_in_child(body, timeout_s * max(1, len(plans)))
