"""Worker-side code: executes runs of one engine. Imported by name in spawned processes (never as __main__)."""
import faulthandler
import importlib
import os
import sys
import traceback

ENGINES = {
    'C07': 'engines.c07_clifford',
    'C10': 'engines.c10_seeded',
    'C11': 'engines.c11_measure',
}

_REPO_PY = os.path.realpath(os.environ.get('NUMQI_VERIF_REPO', '/repo') + '/python')


def pin_threads():
    for k in ('OMP_NUM_THREADS', 'MKL_NUM_THREADS', 'OPENBLAS_NUM_THREADS', 'NUMEXPR_NUM_THREADS', 'VECLIB_MAXIMUM_THREADS'):
        os.environ[k] = '1'


def import_sut():
    """numqi must come from the current working tree of /repo (editable install or sys.path), nothing else"""
    if _REPO_PY not in [os.path.realpath(p) for p in sys.path if p]:
        sys.path.insert(0, _REPO_PY)
    import numqi
    f = os.path.realpath(numqi.__file__)
    if not f.startswith(_REPO_PY + os.sep):
        raise RuntimeError(f'numqi imported from {f}, expected under {_REPO_PY}')
    import torch
    torch.set_num_threads(1)
    if os.environ.get('NUMQI_VERIF_MUTANT'):
        # sensitivity self-test only (DESIGN §2.7): planted defects are monkeypatched in-process, /repo is untouched
        from selftest import mutants
        if not getattr(numqi, '_verif_mutant_applied', None):
            numqi._verif_mutant_applied = mutants.apply_from_env(numqi)
    return numqi


def load_engine(prop):
    return importlib.import_module(ENGINES[prop])


def init_worker():
    pin_threads()
    import_sut()


def execute_guarded(engine, plan, keep_events=False):
    """returns the engine's result dict; an exception escaping the engine is a harness error, never a pass"""
    try:
        return engine.execute(plan, keep_events=keep_events)
    except BaseException:
        return {'harness_error': traceback.format_exc(), 'digest': None, 'violation': None, 'stats': {}, 'cover': {},
                'shape': '', 'nontrivial': False}


def run_chunk(prop, verif_seed, tier, indices, timeout_s, want_plans=()):
    from simkit import rng
    engine = load_engine(prop)
    out = []
    for i in indices:
        faulthandler.dump_traceback_later(timeout_s, exit=True)
        try:
            plan = engine.generate(rng.run_seed(verif_seed, prop, tier, i), i, tier)
            res = execute_guarded(engine, plan)
        finally:
            faulthandler.cancel_dump_traceback_later()
        res['index'] = i
        if i in want_plans:
            res['plan'] = plan
        out.append(res)
    return out


def run_plans(prop, plans, timeout_s):
    engine = load_engine(prop)
    out = []
    for plan in plans:
        faulthandler.dump_traceback_later(timeout_s, exit=True)
        try:
            res = execute_guarded(engine, plan)
        finally:
            faulthandler.cancel_dump_traceback_later()
        out.append(res)
    return out
