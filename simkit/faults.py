"""Fault injection at instants where CPython can really deliver an asynchronous exception (DESIGN §2.3, §8.6).

Counted injection points are only
  (a) entry of a Python function defined under numqi/ (PY_START),
  (b) loop back-edges inside such a function: a JUMP event of a JUMP_BACKWARD instruction of that code object
      (JUMP_BACKWARD_NO_INTERRUPT does not check the eval breaker and is excluded), and
  (c) the normal return of such a function (PY_RETURN): the eval breaker is checked in the caller right after the CALL
      instruction, i.e. after every side effect of the callee and before its result is stored.
These are a subset of the positions where CPython 3.12 services pending signals, so an exception injected there is one a
real Ctrl-C / MemoryError could produce. `with`-block exits are *not* injection points (see DESIGN §2.3).

Implementation: sys.monitoring (PEP 669), not sys.settrace. settrace's `line` and `opcode` events are instrumented lazily
per code object, so the number of events a call produced depended on what the process had traced before (the determinism
self-test caught 160 vs 161 points for the same call, then 67 vs 93 with opcode events). Global sys.monitoring events are
active for every code object from the moment they are set, independent of history.
"""
import dis
import sys

_M = sys.monitoring
_TOOL = 4
_BACKEDGE_CACHE = {}


def _backedge_offsets(code):
    r = _BACKEDGE_CACHE.get(code)
    if r is None:
        r = frozenset(ins.offset for ins in dis.get_instructions(code) if ins.opname == 'JUMP_BACKWARD')
        _BACKEDGE_CACHE[code] = r
    return r


def _is_numqi(code):
    return '/numqi/' in code.co_filename


class Injector:
    """count(fn) -> number of injection points; inject(fn, k, exc_type) -> raises exc_type at the k-th point (0-based)"""

    def __init__(self):
        self.points = 0
        self.fired_at = None

    def _run(self, fn, k, exc_type):
        self.points = 0
        self.fired_at = None
        inj = self
        armed = [True]

        def hit(code, offset):
            i = inj.points
            inj.points += 1
            if k is not None and i == k and armed[0]:
                armed[0] = False
                line = None
                for start, end, ln in code.co_lines():
                    if start <= offset < end:
                        line = ln
                        break
                inj.fired_at = (code.co_filename.split('/numqi/', 1)[-1], code.co_name, line)
                raise exc_type('simkit injected fault')

        def on_start(code, offset):
            if not _is_numqi(code):
                return _M.DISABLE
            hit(code, offset)

        def on_return(code, offset, retval):
            if not _is_numqi(code):
                return _M.DISABLE
            hit(code, offset)

        def on_jump(code, offset, dest):
            if not _is_numqi(code):
                return _M.DISABLE
            if dest < offset and offset in _backedge_offsets(code):
                hit(code, offset)

        ev = _M.events
        _M.use_tool_id(_TOOL, 'simkit-faults')
        try:
            _M.register_callback(_TOOL, ev.PY_START, on_start)
            _M.register_callback(_TOOL, ev.PY_RETURN, on_return)
            _M.register_callback(_TOOL, ev.JUMP, on_jump)
            _M.set_events(_TOOL, ev.PY_START | ev.PY_RETURN | ev.JUMP)
            _M.restart_events()
            return fn()
        finally:
            _M.set_events(_TOOL, 0)
            _M.register_callback(_TOOL, ev.PY_START, None)
            _M.register_callback(_TOOL, ev.PY_RETURN, None)
            _M.register_callback(_TOOL, ev.JUMP, None)
            _M.free_tool_id(_TOOL)

    def count(self, fn):
        """runs fn to completion under the monitor; returns (result, number_of_points)"""
        r = self._run(fn, None, None)
        return r, self.points

    def inject(self, fn, k, exc_type):
        """runs fn; raises exc_type at point k if reached. Returns (result, fired: bool, exception or None)"""
        try:
            r = self._run(fn, k, exc_type)
            # fired_at set but no exception: the SUT swallowed the injected exception
            return r, (self.fired_at is not None), None
        except exc_type as e:
            if self.fired_at is not None:
                return None, True, e
            raise


EXC = {'interrupt': KeyboardInterrupt, 'alloc_fail': MemoryError}


class Interleaver:
    """Caller threads as simulated nodes (DESIGN §8.8): runs each fn of `fns` on its own real thread, but exactly one thread holds
    the baton at any time and every hand-over is decided by the plan: the running thread is parked after quanta[0] injection points
    (same point set as Injector: entry / back-edge / return of numqi code), the next unfinished thread runs for quanta[1] points,
    and so on; when the quanta are used up the holder runs to completion, then the others in index order. Real threads are only
    the vehicle (each keeps its own Python stack); which one runs is never the OS's or the GIL's choice, so a schedule is a pure
    function of (fns, quanta) and replays exactly."""

    def __init__(self):
        self.points = 0
        self.switches = 0

    def run(self, fns, quanta, timeout=50.0):
        import threading
        n = len(fns)
        cv = threading.Condition()
        tl = threading.local()
        st = {'turn': 0, 'qi': 0, 'left': (quanta[0] if quanta else None), 'done': [False] * n}
        results = [None] * n
        me_self = self
        self.points = 0
        self.switches = 0

        def hand_over(me):
            nxt = [j for j in list(range(me + 1, n)) + list(range(0, me)) if not st['done'][j]]
            if not nxt:
                return False
            st['turn'] = nxt[0]
            return True

        def point():
            me = getattr(tl, 'idx', None)
            if me is None:
                return
            me_self.points += 1
            if st['left'] is None:
                return
            st['left'] -= 1
            if st['left'] > 0:
                return
            st['qi'] += 1
            st['left'] = quanta[st['qi']] if st['qi'] < len(quanta) else None
            with cv:
                if hand_over(me):
                    me_self.switches += 1
                    cv.notify_all()
                    while st['turn'] != me:
                        cv.wait()

        def on_start(code, offset):
            if not _is_numqi(code):
                return _M.DISABLE
            point()

        def on_return(code, offset, retval):
            if not _is_numqi(code):
                return _M.DISABLE
            point()

        def on_jump(code, offset, dest):
            if not _is_numqi(code):
                return _M.DISABLE
            if dest < offset and offset in _backedge_offsets(code):
                point()

        def body(i):
            with cv:
                while st['turn'] != i:
                    cv.wait()
            tl.idx = i
            try:
                results[i] = ('ok', fns[i]())
            except BaseException as e:  # the SUT's exception under this schedule is a result, not a harness failure
                results[i] = ('exc', e)
            finally:
                tl.idx = None
                with cv:
                    st['done'][i] = True
                    hand_over(i)
                    cv.notify_all()

        ev = _M.events
        _M.use_tool_id(_TOOL, 'simkit-threads')
        threads = [threading.Thread(target=body, args=(i,), name=f'simkit-caller-{i}', daemon=True) for i in range(n)]
        try:
            _M.register_callback(_TOOL, ev.PY_START, on_start)
            _M.register_callback(_TOOL, ev.PY_RETURN, on_return)
            _M.register_callback(_TOOL, ev.JUMP, on_jump)
            _M.set_events(_TOOL, ev.PY_START | ev.PY_RETURN | ev.JUMP)
            _M.restart_events()
            for t in threads:
                t.start()
            for t in threads:
                t.join(timeout)
                if t.is_alive():
                    raise RuntimeError('simkit Interleaver: a caller thread did not finish (harness error)')
        finally:
            _M.set_events(_TOOL, 0)
            _M.register_callback(_TOOL, ev.PY_START, None)
            _M.register_callback(_TOOL, ev.PY_RETURN, None)
            _M.register_callback(_TOOL, ev.JUMP, None)
            _M.free_tool_id(_TOOL)
        return results
