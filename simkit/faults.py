"""Fault injection at instants where CPython can really deliver an asynchronous exception (DESIGN §2.3).

Counted injection points are only
  (a) entry of a Python function defined under numqi/ (`call` event), and
  (b) loop back-edges inside such a function: the instruction about to execute is a JUMP_BACKWARD of that code object
      (seen through `opcode` trace events; JUMP_BACKWARD_NO_INTERRUPT is excluded), and
  (c) the normal return of such a function (`return` event with a value): the eval breaker is checked in the caller right
      after the CALL instruction, i.e. after every side effect of the callee and before its result is stored.
These are a subset of the positions where CPython 3.12 services pending signals, so an exception injected there is
one a real Ctrl-C / MemoryError could produce. `with`-block exits are *not* injection points (see DESIGN §2.3).
"""
import dis
import sys

_BACKEDGE_CACHE = {}


def _backedge_offsets(code):
    """bytecode offsets of the JUMP_BACKWARD instructions of a code object (JUMP_BACKWARD_NO_INTERRUPT does not check the
    eval breaker and is excluded). Detected through `opcode` trace events, which fire once per executed instruction and do
    not depend on the interpreter's line-event bookkeeping (line events turned out to depend on what the process had traced
    before: the determinism self-test caught a 160-vs-161 point count for the same call in a pristine vs a used process)."""
    r = _BACKEDGE_CACHE.get(code)
    if r is None:
        r = frozenset(ins.offset for ins in dis.get_instructions(code) if ins.opname == 'JUMP_BACKWARD')
        _BACKEDGE_CACHE[code] = r
    return r


def _is_numqi(code):
    return '/numqi/' in code.co_filename


class Injector:
    """count(fn) -> number of injection points; inject(fn, k, exc_type) -> raises exc_type at the k-th point (0-based)"""

    def __init__(self):
        self.points = 0
        self.fired_at = None

    def _run(self, fn, k, exc_type):
        self.points = 0
        self.fired_at = None
        inj = self

        def hit(frame):
            i = inj.points
            inj.points += 1
            if k is not None and i == k:
                inj.fired_at = (frame.f_code.co_filename.split('/numqi/', 1)[-1], frame.f_code.co_name, frame.f_lineno)
                sys.settrace(None)
                raise exc_type('simkit injected fault')

        def global_trace(frame, event, arg):
            if event != 'call':
                return None
            code = frame.f_code
            if not _is_numqi(code):
                return None
            hit(frame)
            be = _backedge_offsets(code)
            if be:
                frame.f_trace_opcodes = True

            def local_trace(frame, event, arg):
                if event == 'opcode':
                    if frame.f_lasti in be:
                        hit(frame)
                elif event == 'return' and arg is not None:
                    # (c) a numqi function returns normally: CPython checks the eval breaker in the caller right after the
                    # CALL instruction completes, i.e. after all side effects of the callee and before its value is stored
                    hit(frame)
                return local_trace
            return local_trace

        old = sys.gettrace()
        sys.settrace(global_trace)
        try:
            return fn()
        finally:
            sys.settrace(old)

    def count(self, fn):
        """runs fn to completion under the tracer; returns (result, number_of_points)"""
        r = self._run(fn, None, None)
        return r, self.points

    def inject(self, fn, k, exc_type):
        """runs fn; raises exc_type at point k if reached. Returns (result, fired: bool, exception or None)"""
        try:
            r = self._run(fn, k, exc_type)
            # fired_at set but no exception: the SUT swallowed the injected exception
            return r, (self.fired_at is not None), None
        except exc_type as e:
            if self.fired_at is not None:
                return None, True, e
            raise


EXC = {'interrupt': KeyboardInterrupt, 'alloc_fail': MemoryError}
