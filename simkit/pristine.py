"""Pristine-process evaluator for oracle P1x (DESIGN §4, §8.2): a separately spawned interpreter with a different
PYTHONHASHSEED and no simulator seams except a *different* entropy stream. Every request is evaluated in a forked child
of the freshly imported server (so: no history at all), with OS entropy and the global generators replaced by streams
derived from the request itself - different from anything the simulated run saw, yet a pure function of the request,
so a replay gives the same answer. If a seeded API is a function of (arguments, seed) only, the digest equals the one
computed inside the simulated run.

protocol: one JSON object per line on stdin -> one JSON object per line on stdout."""
import json
import os
import subprocess
import sys

VERIF = os.path.dirname(os.path.dirname(os.path.abspath(__file__)))


def _evaluate(nq, spec):
    import random
    import numpy as np
    import torch
    from engines.c10_seeded import outcome_of
    from simkit import rng as srng, seams
    ent = random.Random(srng.h64('pristine-entropy', json.dumps(spec, sort_keys=True)))
    orig_default_rng = np.random.default_rng

    def default_rng(seed=None):
        return orig_default_rng(ent.getrandbits(64) if seed is None else seed)
    np.random.default_rng = default_rng
    orig_random = random.Random

    class R(orig_random, metaclass=seams._SimRandomMeta):
        def __init__(self, x=None):
            super().__init__(ent.getrandbits(64) if x is None else x)
    random.Random = R
    np.random.seed(ent.getrandbits(32))
    random.seed(ent.getrandbits(64))
    torch.manual_seed(ent.getrandbits(63))
    kind, dig, _ = outcome_of(nq, spec, True, {})
    return {'kind': kind, 'digest': dig}


def serve():
    from simkit import worker
    worker.pin_threads()
    nq = worker.import_sut()
    out = sys.stdout
    out.write(json.dumps({'ready': True}) + '\n')
    out.flush()
    for line in sys.stdin:
        line = line.strip()
        if not line:
            continue
        req = json.loads(line)
        try:
            resp = worker.run_in_child(lambda: _evaluate(nq, req['spec']), 600)
        except BaseException as e:  # noqa
            resp = {'kind': 'server_error', 'digest': f'{type(e).__name__}: {e}'}
        out.write(json.dumps(resp) + '\n')
        out.flush()


class Client:
    def __init__(self):
        self.p = None
        self.owner_pid = None
        self.requests = 0

    def _start(self):
        env = dict(os.environ)
        env['PYTHONHASHSEED'] = '4242'
        env['PYTHONPATH'] = os.environ.get('NUMQI_VERIF_REPO', '/repo') + '/python:' + VERIF
        self.p = subprocess.Popen([sys.executable, '-m', 'simkit.pristine'], stdin=subprocess.PIPE, stdout=subprocess.PIPE,
                                  stderr=subprocess.DEVNULL, text=True, cwd=VERIF, env=env)
        ready = json.loads(self.p.stdout.readline())
        assert ready.get('ready')

    def ensure_started(self):
        if self.p is not None and self.owner_pid != os.getpid():
            return  # forked child of the owner: Popen.poll() would wrongly report the server dead (ECHILD); use the inherited pipes
        if self.p is None or self.p.poll() is not None:
            self._start()
            self.owner_pid = os.getpid()

    def ask(self, spec):
        self.ensure_started()
        self.requests += 1
        self.p.stdin.write(json.dumps({'spec': spec}) + '\n')
        self.p.stdin.flush()
        line = self.p.stdout.readline()
        if not line:
            raise RuntimeError('pristine server died')
        return json.loads(line)

    def close(self):
        if self.p is not None and self.p.poll() is None:
            try:
                self.p.stdin.close()
                self.p.wait(timeout=10)
            except Exception:
                self.p.kill()
        self.p = None


_CLIENT = None


def client():
    global _CLIENT
    if _CLIENT is None:
        _CLIENT = Client()
        import atexit
        atexit.register(_CLIENT.close)
    return _CLIENT


if __name__ == '__main__':
    serve()
