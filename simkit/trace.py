"""Canonical, process-independent digests of values and event logs (DESIGN §2.7)."""
import hashlib
import json
import numpy as np


def canon(x, out=None):
    """append canonical bytes of x to out (a list of bytes)"""
    top = out is None
    if top:
        out = []
    if x is None:
        out.append(b'N')
    elif isinstance(x, (bool, np.bool_)):
        out.append(b'B1' if x else b'B0')
    elif isinstance(x, (int, np.integer)):
        out.append(b'I' + str(int(x)).encode())
    elif isinstance(x, (float, np.floating)):
        out.append(b'F' + np.float64(x).tobytes())
    elif isinstance(x, (complex, np.complexfloating)):
        out.append(b'C' + np.complex128(x).tobytes())
    elif isinstance(x, str):
        out.append(b'S' + x.encode())
    elif isinstance(x, bytes):
        out.append(b'Y' + x)
    elif isinstance(x, np.ndarray):
        a = np.ascontiguousarray(x)
        out.append(b'A' + a.dtype.str.encode() + repr(a.shape).encode())
        out.append(a.tobytes())
    elif isinstance(x, (list, tuple)):
        out.append(b'L' + str(len(x)).encode() + (b't' if isinstance(x, tuple) else b'l'))
        for y in x:
            canon(y, out)
    elif isinstance(x, (set, frozenset)):
        out.append(b'E' + str(len(x)).encode())
        for y in sorted(x, key=repr):
            canon(y, out)
    elif isinstance(x, dict):
        out.append(b'D' + str(len(x)).encode())
        for k in sorted(x, key=repr):
            canon(k, out)
            canon(x[k], out)
    elif hasattr(x, 'F2') and isinstance(getattr(x, 'F2'), np.ndarray):  # numqi PauliOperator
        out.append(b'P')
        canon(x.F2, out)
    elif hasattr(x, 'detach') and hasattr(x, 'numpy'):  # torch tensor
        canon(x.detach().cpu().numpy(), out)
    else:
        raise TypeError(f'canon: unsupported type {type(x)}')
    if top:
        return b'\x00'.join(out)
    return None


def digest(x) -> str:
    return hashlib.sha256(canon(x)).hexdigest()[:16]


class EventLog:
    """append-only log of a run; its digest is the run's identity for the determinism self-test.
    Logging never draws from a PRNG and never reads a clock."""

    def __init__(self, keep=False):
        self._h = hashlib.sha256()
        self.n = 0
        self.keep = keep
        self.events = []

    def add(self, kind: str, *payload):
        b = canon((kind,) + tuple(payload))
        self._h.update(len(b).to_bytes(8, 'big'))
        self._h.update(b)
        self.n += 1
        if self.keep:
            self.events.append((kind,) + tuple(_short(p) for p in payload))

    def hexdigest(self):
        return self._h.hexdigest()[:24]


def _short(p):
    if isinstance(p, np.ndarray):
        return f'ndarray{p.shape}:{digest(p)}'
    if isinstance(p, (list, tuple)) and len(p) > 12:
        return f'{type(p).__name__}[{len(p)}]:{digest(p)}'
    try:
        json.dumps(p)
        return p
    except TypeError:
        return repr(p)[:80]
