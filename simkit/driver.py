"""Batch driver: seeded search over simulated runs, shrinking, replay files, known findings, evidence (DESIGN §2.4-2.8).

exit 0 = held on everything explored (KNOWN-FINDING lines allowed); 1 = VIOLATION; 2 = HARNESS-ERROR (never a pass).
"""
import argparse
import concurrent.futures as cf
import copy
import json
import multiprocessing
import os
import subprocess
import sys
import time

from simkit import rng as srng
from simkit import shrink as sshrink
from simkit import worker

VERIF = os.path.dirname(os.path.dirname(os.path.abspath(__file__)))
KNOWN = os.path.join(VERIF, 'known_findings.json')
MAX_SHRUNK_GROUPS = 8  # a change that breaks everything yields dozens of signatures: minimise the first few, report all


def log(*a):
    try:
        print(*a, flush=True)
    except BrokenPipeError:  # the reader went away (e.g. `| head`): keep going, the exit code still counts
        try:
            sys.stdout = open(os.devnull, 'w')
        except OSError:
            pass


def load_known(prop):
    if not os.path.exists(KNOWN):
        return []
    with open(KNOWN) as f:
        data = json.load(f)
    return [e for e in data.get('findings', []) if e.get('property') == prop]


def match_known(entries, sig):
    """only `open` entries suppress; the match is on the specific (oracle, api) signature (Appendix C)"""
    for e in entries:
        if e.get('status') != 'open':
            continue
        s = e.get('signature', {})
        if s.get('oracle') == sig['oracle'] and s.get('api') == sig['api']:
            return e
    return None


def _slug(x):
    return ''.join(ch if ch.isalnum() else '_' for ch in str(x))[:40]


def signature(v):
    return {'oracle': v['oracle'], 'api': v.get('api', '')}


def sig_key(v):
    return (v['oracle'], v.get('api', ''))


def replay_file(prop, path, quiet=False):
    with open(path) as f:
        rp = json.load(f)
    plans = list(rp.get('prelude', [])) + [rp['plan']]
    try:
        res = worker.execute_sequence(prop, plans, 600, keep_events=True)[-1]
    except BaseException as e:
        log(f'HARNESS-ERROR in replay: {type(e).__name__}: {e}')
        return 2
    if res.get('harness_error'):
        log('HARNESS-ERROR in replay:\n' + res['harness_error'])
        return 2
    v = res.get('violation')
    exp = rp.get('expected', {})
    if v is not None and (not exp or sig_key(v) == (exp.get('oracle'), exp.get('api', ''))):
        if not quiet:
            for ev in res.get('events', [])[-40:]:
                log('  event', json.dumps(ev, default=str))
        log(f"violation oracle={v['oracle']} api={v.get('api','')} op_index={v.get('op_index')} detail={v.get('detail')}")
        log(f'trace_digest={res["digest"]} expected_digest={rp.get("trace_digest")}')
        log(f'VIOLATION property={prop} replay={path}')
        return 1
    if v is not None:
        log(f"replay produced a different violation: {sig_key(v)} (expected {exp})")
        log(f'VIOLATION property={prop} replay={path}')
        return 1
    log(f'REPLAY-CLEAN property={prop} replay={path} (the recorded violation does not reproduce on this tree)')
    return 0


def _pool(workers):
    ctx = multiprocessing.get_context('spawn')
    return cf.ProcessPoolExecutor(max_workers=workers, mp_context=ctx, initializer=worker.init_worker)


def run_batch(prop, tier, verif_seed, runs, workers, per_run_timeout, wall_cap, sample_idx):
    """returns (results sorted by index, harness_errors list, stopped_early bool)"""
    t0 = time.time()
    # A few LONG chunks (one process lives through hundreds of runs: state that numqi accumulates per process - hand-rolled
    # caches, counters - gets a chance to overflow or wrap) and many short ones (<= 64 runs: short multi-run histories, short tails).
    n_long, long_size = (0, 0)
    if runs >= 4000:
        n_long, long_size = (4, 500) if tier == 'quick' else (8, 2500)
    head = n_long * long_size
    chunks = [list(range(c, head, n_long)) for c in range(n_long)]
    rest = runs - head
    nchunk = max(1, min(rest, max(workers * 12, -(-rest // 64))))
    # interleave indices so every chunk sees every stratum and chunks finish at similar times
    chunks += [list(range(head + c, runs, nchunk)) for c in range(nchunk)]
    chunks = [ch for ch in chunks if ch]
    results, herr, early = [], [], False
    ex = _pool(workers)
    try:
        futs = {ex.submit(worker.run_chunk, prop, verif_seed, tier, ch, per_run_timeout,
                          tuple(i for i in ch if i in sample_idx)): ch for ch in chunks}
        pending = set(futs)
        while pending:
            done, pending = cf.wait(pending, timeout=5.0, return_when=cf.FIRST_COMPLETED)
            for fu in done:
                try:
                    results.extend(fu.result())
                except BaseException as e:  # BrokenProcessPool, worker killed by faulthandler timeout, ...
                    herr.append(f'worker failure on chunk starting at run {futs[fu][0]}: {type(e).__name__}: {e}')
            if herr:
                break
            if time.time() - t0 > wall_cap and pending:
                early = True
                for fu in pending:
                    fu.cancel()
                # futures already running cannot be cancelled: wait for them
                running = [fu for fu in pending if not fu.cancelled()]
                for fu in running:
                    try:
                        results.extend(fu.result(timeout=per_run_timeout * 4 + 60))
                    except cf.CancelledError:
                        pass
                    except BaseException as e:
                        herr.append(f'worker failure: {type(e).__name__}: {e}')
                break
    finally:
        procs = list(getattr(ex, '_processes', {}).values())
        ex.shutdown(wait=False, cancel_futures=True)
        if herr:
            # a worker is stuck or dead: do not let interpreter shutdown wait for it
            for pr in procs:
                try:
                    pr.kill()
                except Exception:
                    pass
    results.sort(key=lambda r: r['index'])
    for r in results:
        if r.get('harness_error'):
            herr.append(f"run {r['index']}: {r['harness_error']}")
    return results, herr, early


def aggregate(engine, results):
    stats, cover = {}, {}
    digests = set()
    shapes = set()
    nontrivial = set()
    for r in results:
        for k, v in r.get('stats', {}).items():
            if k.startswith('max.') or k.startswith('probe.max.'):
                stats[k] = max(stats.get(k, 0), v)
            else:
                stats[k] = stats.get(k, 0) + v
        for k, v in r.get('cover', {}).items():
            cover.setdefault(k, set()).update(v)
        if r.get('digest'):
            digests.add(r['digest'])
        if r.get('shape'):
            shapes.add(r['shape'])
        if r.get('nontrivial') and r.get('plan_digest'):
            nontrivial.add(r['plan_digest'])
    return stats, cover, digests, shapes, nontrivial


def main(argv=None):
    ap = argparse.ArgumentParser(prog='check')
    ap.add_argument('prop')
    ap.add_argument('tier', nargs='?', default=None)
    ap.add_argument('--replay')
    ap.add_argument('--runs', type=int)
    ap.add_argument('--workers', type=int)
    ap.add_argument('--seed', type=int)
    ap.add_argument('--wall', type=float)
    ap.add_argument('--no-evidence', action='store_true')
    ap.add_argument('--evidence-path')
    ap.add_argument('--dump-digests', help='write {index: digest} json (determinism self-test)')
    ap.add_argument('--no-shrink', action='store_true')
    a = ap.parse_args(argv)
    prop = a.prop.upper()
    if prop == 'SELFTEST-IMPORT':
        worker.pin_threads()
        nq = worker.import_sut()
        log(f'numqi imported from {nq.__file__}')
        return 0
    if prop not in worker.ENGINES:
        log(f'HARNESS-ERROR unknown property {prop}')
        return 2
    worker.pin_threads()
    try:
        worker.import_sut()
        engine = worker.load_engine(prop)
    except BaseException as e:
        import traceback
        log('HARNESS-ERROR cannot import SUT/engine:\n' + traceback.format_exc())
        return 2
    if a.replay:
        return replay_file(prop, a.replay)

    tier = a.tier or os.environ.get('VERIF_TIER') or 'quick'
    if tier not in ('quick', 'thorough'):
        log(f'HARNESS-ERROR unknown tier {tier}')
        return 2
    verif_seed = a.seed if a.seed is not None else int(os.environ.get('VERIF_SEED', '0') or 0)
    b = engine.budget(tier)
    runs = a.runs or b['runs']
    workers = a.workers or min(16, os.cpu_count() or 1)
    wall_cap = a.wall or b['wall_cap_s']
    log(f'VERIF_SEED={verif_seed} property={prop} tier={tier} runs={runs} workers={workers} wall_cap_s={wall_cap}')
    t0 = time.time()
    sample_idx = set(range(min(3, runs)))
    results, herr, early = run_batch(prop, tier, verif_seed, runs, workers, b['per_run_timeout_s'], wall_cap, sample_idx)
    wall_runs = time.time() - t0
    if herr:
        for e in herr[:5]:
            log('HARNESS-ERROR ' + e)
        return 2
    if not results:
        log('HARNESS-ERROR no run completed')
        return 2

    stats, cover, digests, shapes, nontrivial = aggregate(engine, results)
    if a.dump_digests:
        with open(a.dump_digests, 'w') as f:
            json.dump({str(r['index']): r['digest'] for r in results}, f)

    # ---- violations: group by signature, shrink the first of each group, write + verify replay files ------------
    known = load_known(prop)
    viol = [r for r in results if r.get('violation')]
    groups = {}
    for r in viol:
        groups.setdefault(sig_key(r['violation']), []).append(r)
    exit_code = 0
    reported = []
    shrink_deadline = time.time() + (240 if tier == 'quick' else 900)  # minimisation is best effort: never let it dominate the check
    os.makedirs(os.path.join(VERIF, 'replays'), exist_ok=True)
    for key, rs in sorted(groups.items()):
        r0 = rs[0]
        idx = r0['index']
        plan = engine.generate(srng.run_seed(verif_seed, prop, tier, idx), idx, tier)
        v0 = r0['violation']
        tests = 0
        prelude = []
        tmo = b['per_run_timeout_s']

        def last(plans):
            rr = worker.execute_sequence(prop, plans, tmo)[-1]
            return rr

        def fails_seq(plans, _key=key):
            rr = last(plans)
            vv = rr.get('violation')
            return (vv is not None) and sig_key(vv) == _key and not rr.get('harness_error')
        if not fails_seq([plan]):
            # not reproducible from the pristine state by itself: the violation depends on what earlier runs of the same
            # chunk left behind in the process (hidden state the per-run reset does not own) -> replay the whole history
            prelude = [engine.generate(srng.run_seed(verif_seed, prop, tier, j), j, tier) for j in r0.get('chunk_prefix', [])]
            if not prelude or not fails_seq(prelude + [plan]):
                # The oracle failed on real code in the worker, but neither the run nor its whole chunk history reproduces it from
                # a pristine process: the SUT's answer depends on something the simulator does not own (object addresses, thread
                # timing inside the SUT, ...). That is still a violation of "a function of the history only"; it is reported
                # as such, flagged unreproducible, with the full history in the replay file.
                path = os.path.join(VERIF, 'replays', f'{prop}-s{verif_seed}-{tier}-r{idx}-{key[0]}-{_slug(key[1])}-p{os.getpid()}.json')
                with open(path, 'w') as f:
                    json.dump({'property': prop, 'verif_seed': verif_seed, 'tier': tier, 'run_index': idx, 'expected': signature(v0),
                               'detail': v0.get('detail'), 'op_index': v0.get('op_index'), 'trace_digest': r0.get('digest'), 'reproducible': False,
                               'runs_with_this_signature': len(rs), 'prelude': prelude, 'plan': plan}, f, indent=1, default=str)
                sig = signature(v0)
                k = match_known(known, sig)
                if k is not None:
                    log(f"KNOWN-FINDING: property={prop} {k.get('what', sig)} (oracle={sig['oracle']} api={sig['api']}; {len(rs)} runs; replay={path})")
                else:
                    log(f"violation oracle={sig['oracle']} api={sig['api']} runs={len(rs)} first_run={idx} UNREPRODUCIBLE (observed in the batch, not when the same history is re-executed: the result depends on state outside the simulated history) detail={v0.get('detail')}")
                    log(f'VIOLATION property={prop} replay={path}')
                    exit_code = 1
                reported.append({'signature': sig, 'runs': len(rs), 'replay': path, 'known': k is not None, 'minimised_ops': None, 'reproducible': False})
                continue
            log(f'note: violation {key} of run {idx} needs state left behind by earlier runs of the same process; minimising the multi-run history ({len(prelude)} earlier runs)')
            if not a.no_shrink:
                holder = {'ops': prelude}
                small, t = sshrink.ddmin_ops(holder, lambda h: fails_seq(list(h['ops']) + [plan]), max_tests=60 if len(prelude) <= 64 else 24, deadline=shrink_deadline)
                prelude = list(small['ops']) if fails_seq(list(small['ops']) + [plan]) else prelude
                tests += t
        if not a.no_shrink and len(reported) < MAX_SHRUNK_GROUPS:
            plan, t = sshrink.shrink(plan, lambda p: fails_seq(prelude + [p]), getattr(engine, 'simplify', None), max_tests=b.get('shrink_tests', 400) if len(prelude) <= 64 else 12, deadline=shrink_deadline)
            tests += t
            if len(prelude) == 1:
                pl, t = sshrink.shrink(prelude[0], lambda p: fails_seq([p, plan]), getattr(engine, 'simplify', None), max_tests=100, deadline=shrink_deadline)
                prelude = [pl]
                tests += t
        rr = last(prelude + [plan])
        vmin = rr.get('violation') or v0
        path = os.path.join(VERIF, 'replays', f'{prop}-s{verif_seed}-{tier}-r{idx}-{key[0]}-{_slug(key[1])}-p{os.getpid()}.json')
        with open(path, 'w') as f:
            json.dump({'property': prop, 'verif_seed': verif_seed, 'tier': tier, 'run_index': idx,
                       'expected': signature(vmin), 'detail': vmin.get('detail'), 'op_index': vmin.get('op_index'),
                       'trace_digest': rr.get('digest'), 'shrink_tests': tests, 'runs_with_this_signature': len(rs),
                       'prelude': prelude, 'plan': plan}, f, indent=1, default=str)
        # replay in a fresh interpreter must reproduce it exactly
        cp = subprocess.run([os.path.join(VERIF, 'check'), prop, '--replay', path], capture_output=True, text=True, timeout=600)
        reproduced = (cp.returncode == 1) and (f'VIOLATION property={prop}' in cp.stdout) and \
                     (f'trace_digest={rr.get("digest")} ' in cp.stdout)
        sut_nondeterministic = False
        if not reproduced:
            # same violation class but another trace (the SUT itself is nondeterministic, e.g. threads inside it), or a flaky one:
            # accept if the fresh interpreter reports the same (oracle, api) in any of 3 attempts
            for _ in range(3):
                if (cp.returncode == 1) and (f"violation oracle={key[0]} api={key[1]} " in cp.stdout):
                    reproduced = sut_nondeterministic = True
                    break
                cp = subprocess.run([os.path.join(VERIF, 'check'), prop, '--replay', path], capture_output=True, text=True, timeout=600)
        sig = signature(vmin)
        k = match_known(known, sig)
        nops = len(plan.get('ops', [])) + sum(len(p.get('ops', [])) for p in prelude)
        if not reproduced:
            log(f'HARNESS-ERROR replay of {path} in a fresh interpreter did not reproduce the violation exactly:\n{cp.stdout[-2000:]}\n{cp.stderr[-2000:]}')
            return 2
        if k is not None:
            log(f"KNOWN-FINDING: property={prop} {k.get('what', sig)} (oracle={sig['oracle']} api={sig['api']}; {len(rs)} runs; replay={path})")
        else:
            log(f"violation oracle={sig['oracle']} api={sig['api']} runs={len(rs)} first_run={idx} minimised_ops={nops}{' SUT-NONDETERMINISTIC (the replay violates the same oracle with a different trace)' if sut_nondeterministic else ''} detail={vmin.get('detail')}")
            log(f'VIOLATION property={prop} replay={path}')
            exit_code = 1
        reported.append({'signature': sig, 'runs': len(rs), 'replay': path, 'known': k is not None, 'minimised_ops': nops})
    for e in known:
        if e.get('status') == 'fixed':
            log(f"fixed: property={prop} {e.get('commit','')} {e.get('what','')}")

    wall = time.time() - t0
    if not a.no_evidence:
        ev = build_evidence(engine, prop, tier, verif_seed, runs, results, stats, cover, digests, shapes, nontrivial,
                            reported, wall, wall_runs, early, workers)
        path = a.evidence_path or os.path.join(VERIF, 'evidence', f'{prop}.json')
        os.makedirs(os.path.dirname(path), exist_ok=True)
        tmp = path + '.tmp'
        with open(tmp, 'w') as f:
            json.dump(ev, f, indent=1, default=str)
        os.replace(tmp, path)
    nv = sum(1 for r in reported if not r['known'])
    log(f'property={prop} tier={tier} runs={len(results)}/{runs} distinct_traces={len(digests)} violations={nv} '
        f'known={sum(1 for r in reported if r["known"])} wall_s={wall:.1f} runs_per_hour={int(len(results) / max(wall_runs, 1e-9) * 3600)}')
    return exit_code


def build_evidence(engine, prop, tier, verif_seed, runs, results, stats, cover, digests, shapes, nontrivial, reported,
                   wall, wall_runs, early, workers):
    faults = {}
    probes = {}
    other = {}
    for k, v in sorted(stats.items()):
        if k.startswith('fault.'):
            _, kind, what = k.split('.', 2)
            faults.setdefault(kind, {'configured': 0, 'fired': 0})[what] = v
        elif k.startswith('probe.'):
            probes[k[6:]] = v
        else:
            other[k] = v
    samples = [r['plan'] for r in results if 'plan' in r][:3]
    cov = {
        'evaluations': len(results),
        'distinct_nontrivial': len(nontrivial),
        'rule': engine.RULE,
        'samples': samples,
        'runs_requested': runs,
        'stopped_early_at_wall_cap': early,
        'distinct_trace_digests': len(digests),
        'distinct_history_shapes': len(shapes),
        'runs_per_hour': int(len(results) / max(wall_runs, 1e-9) * 3600),
        'seeds': {'VERIF_SEED': verif_seed, 'run_seed_rule': 'sha256(sha256(VERIF_SEED,property,tier), run index)',
                  'run_indices': [0, len(results) - 1]},
        'workers': workers,
        'faults': faults,
        'probes': probes,
        'counters': other,
        'coverage_sets': {k: len(v) for k, v in sorted(cover.items())},
        'components': engine.COMPONENTS,
        'violations_reported': reported,
    }
    if hasattr(engine, 'evidence_extra'):
        cov.update(engine.evidence_extra(stats, cover, results))
    return {
        'property_id': prop,
        'tier': tier,
        'seed': verif_seed,
        'level': 'exploration',
        'coverage': cov,
        'assumptions': engine.ASSUMPTIONS,
        'wall_s': round(wall, 2),
        'violations': sum(1 for r in reported if not r['known']),
    }


if __name__ == '__main__':
    sys.exit(main())
