"""Minimise a violating Plan (DESIGN §2.6): ddmin over the operation list, then engine-specific simplifications,
keeping a candidate only if it still violates the same (property, oracle id)."""
import copy


def ddmin_ops(plan, fails, max_tests=400, deadline=None):
    import time
    ops = list(plan['ops'])
    tests = 0

    def late():
        return deadline is not None and time.time() > deadline

    def mk(o):
        p = copy.deepcopy(plan)
        p['ops'] = copy.deepcopy(o)
        return p

    n = 2
    while len(ops) >= 2 and tests < max_tests and not late():
        chunk = max(1, len(ops) // n)
        reduced = False
        i = 0
        while i < len(ops) and tests < max_tests and not late():
            cand = ops[:i] + ops[i + chunk:]
            tests += 1
            if cand and fails(mk(cand)):
                ops = cand
                n = max(n - 1, 2)
                reduced = True
            else:
                i += chunk
        if not reduced:
            if chunk == 1:
                break
            n = min(n * 2, len(ops))
    return mk(ops), tests


def shrink(plan, fails, simplify=None, max_tests=600, deadline=None):
    """fails(plan)->bool must be deterministic. simplify(plan) yields simpler candidate plans (engine-specific)."""
    import time
    best, tests = ddmin_ops(plan, fails, max_tests=max_tests, deadline=deadline)
    if simplify is not None:
        progress = True
        while progress and tests < max_tests:
            progress = False
            for cand in simplify(best):
                tests += 1
                if tests >= max_tests or (deadline is not None and time.time() > deadline):
                    break
                if fails(cand):
                    best = cand
                    progress = True
                    break
        best2, t2 = ddmin_ops(best, fails, max_tests=max(0, max_tests - tests), deadline=deadline)
        best, tests = best2, tests + t2
    return best, tests
