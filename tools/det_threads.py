"""tools/det_threads.py [N] [C07|C10]: determinism of the thread-interleaving and wide-register plans specifically (DESIGN §8.8).
Every plan with a `conc` or `wide` op among the first N run indices is executed in a forked child three times: plain, after 7 other
runs in the same process, and in reverse order; trace digests must agree. Run it again under another PYTHONHASHSEED and compare the
printed combined digest."""
import hashlib
import os
import sys
sys.path.insert(0, os.path.dirname(os.path.dirname(os.path.abspath(__file__))))
from concurrent.futures import ProcessPoolExecutor
import multiprocessing as mp
from simkit import rng, worker  # noqa: E402
PROP = sys.argv[2] if len(sys.argv) > 2 else 'C07'
eng = worker.load_engine(PROP)


def _one(args):
    idxs, mode = args
    out = {}
    order = list(reversed(idxs)) if mode == 'rev' else idxs
    if mode == 'warm':
        for j in range(7):
            eng.execute(eng.generate(rng.run_seed(99, PROP, 'quick', j), j, 'quick'))
    for i in order:
        out[i] = eng.execute(eng.generate(rng.run_seed(0, PROP, 'quick', i), i, 'quick'))['digest']
    return out


def main():
    worker.pin_threads()
    worker.import_sut()
    N = int(sys.argv[1]) if len(sys.argv) > 1 else 3000
    sel = []
    for i in range(N):
        p = eng.generate(rng.run_seed(0, PROP, 'quick', i), i, 'quick')
        if any(o['op'] in ('conc', 'wide') for o in p['ops']):
            sel.append(i)
    chunks = [sel[k::16] for k in range(16)]
    res = {}
    with ProcessPoolExecutor(16, mp_context=mp.get_context('fork')) as ex:
        for mode in ('plain', 'warm', 'rev'):
            d = {}
            for part in ex.map(_one, [(c, mode) for c in chunks if c]):
                d.update(part)
            res[mode] = d
    bad = [i for i in sel if len({res[m][i] for m in res}) != 1]
    comb = hashlib.sha256(''.join(res['plain'][i] for i in sel).encode()).hexdigest()[:16]
    print(f'plans={len(sel)} diverging={len(bad)} {bad[:10]} combined_digest={comb}')
    sys.exit(1 if bad else 0)


if __name__ == '__main__':
    main()
