#!/venv/bin/python
"""Regenerates /verif/MANIFEST.json and validates it against the schema. Edit CLAIMED / NA here, never the JSON."""
import json
import os
import jsonschema

HERE = os.path.dirname(os.path.dirname(os.path.abspath(__file__)))

NA = {
    'C01': 'pure function of (theta, options): no schedule, clock, fault or history can change the result; sampling inputs under simulator vocabulary would be property-based testing, not simulation (DESIGN §0)',
    'C02': 'rank of a Jacobian at a point is a pure function of the point; nothing for a simulator to own',
    'C03': 'apply_gate / apply_control_n_gate / dm.apply_gate / to_unitary are pure functions of (state, gate, indices); gate lists are input data, not schedules (exercised only as workload of C11)',
    'C04': 'gradient truth is a statement about one input point; no schedule, fault or history in it',
    'C05': 'separability criteria are pure functions of rho; the SDP solver is not a fault surface the property speaks about',
    'C06': 'thresholds and nesting are relations between pure functions of (rho, direction, k)',
    'C08': 'finite algebra of Pauli encodings: pure functions, decided by enumeration (model checking), not simulation',
    'C09': 'bijectivity of an index map: finite enumeration, no state',
    'C12': 'channel-representation conversions and distance inequalities are pure functions',
    'C13': 'closed-form measures and loss >= closed form at every theta: pure functions of (rho, theta)',
    'C14': 'finite group tables / partition counts: enumeration; cached tables are never mutated by numqi (DESIGN App. B)',
    'C15': 'SU(2)/SO(3) conversions are pure functions of the rotation',
    'C16': 'Gell-Mann isomorphism is pure linear algebra',
    'C17': 'partial traces / Dicke reduction are pure index contractions',
    'C18': 'catalogue constructors are pure functions of their arguments',
    'C19': 'shipped codes are constants; Knill-Laflamme is a finite check on them',
    'C20': 'subspace decomposition and rank certificates are pure functions of the generator list',
}

CLAIMED = {
    'C07': {
        'design_ref': 'DESIGN.md §3, §8',
        'text': 'Seeded search over simulated histories of one or two CliffordCircuit objects: interleaved appends (aliases, numpy-int indices, scheduler-scripted random gates, '
                'append bursts), tableau / apply / automorphism / export / compose / num_qubit queries, rejected calls, deep copies, pickle round trips and forks that stay in use, '
                'cache wipes and re-sized memo tables, KeyboardInterrupt/MemoryError injected (sys.monitoring) at function entries, loop back-edges and returns of numqi code, '
                'long-lived processes, two caller threads that query their own circuits concurrently with every hand-over chosen by the scheduler (real threads, one baton, '
                'pre-emption points at numqi function entries/back-edges/returns), registers of up to 16 qubits checked against the relabelled compact circuit; every observation is checked against an independent dense reference model with a candidate-set relaxation after faults, arrays handed out '
                'earlier are re-checked after every later operation. Exploration is the right level: the property quantifies over unbounded histories; a clean batch is evidence, not proof.',
        'note': 'trusted: the dense model (models/dense_pauli.py), numpy; assumed: a circuit object is used by one thread at a time (threads share only numqi module state), callers do not mutate returned tableaux; dense model n<=7 qubits (<=5 touched qubits on registers up to 16), <=60 ops per run, <=5 qubits for the unitary->tableau oracle',
        'technique': 'deterministic simulation with fault injection: seeded history/fault/thread-interleaving scheduler + dense reference-model oracle + ddmin replay files',
    },
    'C10': {
        'design_ref': 'DESIGN.md §4, §8',
        'text': 'Seeded search over histories in which every seeded API call (all of numqi.random in every optional-argument branch, measurement, seeded circuits, CliffordCircuit, '
                'purification, entangled subspaces, minimizers with callbacks, convex-hull and boundary solvers on re-used objects) is evaluated at >=2 positions of one run while the '
                'simulator owns all process entropy (OS entropy stream, numpy/python/torch global generators, wall clock, memo tables, solver failures, forced discrete draws) and perturbs '
                'it in between; oracles: bit-identical outcome per (call, seed), pristine-process digest under another hash seed and entropy stream, membership predicates of the advertised '
                'set, retry-after-fault equality, caller-overwritten results, same-seed sibling calls; two seeded calls running on two caller threads with scheduler-chosen hand-overs must each reproduce their first evaluation.',
        'note': 'trusted: numpy bit generators, membership predicates in models/membership.py; BLAS pinned to 1 thread; integer seeds only; multi-process branches (check_UD num_worker>1) are not simulated; threads: light (non-solver) seeded calls only, one harness-owned object is never used by two threads',
        'technique': 'deterministic simulation with fault injection: sim-owned entropy/clock seams + seeded history scheduler + same-seed-same-bits, pristine-process and membership oracles',
    },
    'C11': {
        'design_ref': 'DESIGN.md §5, §8',
        'text': 'Seeded search over measurement histories on a register and inside Circuit objects where the scheduler (not numpy) picks every measurement outcome, so every outcome of '
                'every qubit subset (all 120 (n<=6, subset) pairs are stratified into quick; outcomes down to probability 1e-24) is reachable and chained (re-measure, nested, overlapping), '
                'with sweeps of the library\'s own sampler, shared gate objects via extend_circuit, shifts, classical-control and probe custom gates, the torch wrapper, re-used input buffers, '
                'cache wipes and injected exceptions inside runs; the model predicts each gate\'s outcome and every record, final state, caller-owned input and earlier result is checked against a bit-mask Born-rule model.',
        'note': 'trusted: the bit-mask Born model (models/born.py); complex128/float64 states, n<=6 qubits, tolerance 1e-9 absolute and 1e-6 relative; shifting a circuit that holds one MeasureGate object several times may be refused (AssertionError, circuit dropped) or must shift every occurrence by delta',
        'technique': 'deterministic simulation with fault injection: scheduler-scripted measurement outcomes + Born-rule reference model + fault injection inside circuit runs',
    },
}

ENGINE_FILE = {'C07': 'engines/c07_clifford.py', 'C10': 'engines/c10_seeded.py', 'C11': 'engines/c11_measure.py'}


def main():
    props = [json.loads(l) for l in open(os.path.join(HERE, 'properties.jsonl'))]
    ids = [p['id'] for p in props]
    claimed = [i for i in ids if i in CLAIMED and os.path.exists(os.path.join(HERE, ENGINE_FILE[i]))]
    na = []
    for i in ids:
        if i in claimed:
            continue
        na.append({'property_id': i, 'reason': NA.get(i, 'simulated check under construction; claimed once its engine is committed (DESIGN §0)')})
    checks = []
    for i in claimed:
        c = CLAIMED[i]
        checks.append({
            'property_id': i,
            'quick_cmd': f'./check {i} quick',
            'thorough_cmd': f'./check {i} thorough',
            'evidence_file': f'/verif/evidence/{i}.json',
            'replay_cmd_template': f'./check {i} --replay {{path}}',
            'engine': 'simkit',
            'level_claimed': {'category': 'exploration', 'text': c['text'], 'design_ref': c['design_ref']},
            'level_note': c['note'],
            'technique': c['technique'],
        })
    m = {
        'version': 1,
        'setup_cmd': '/venv/bin/python -c "import numpy, scipy, torch, cvxpy, jsonschema" && ./check selftest-import',
        'hooks': {
            'guard': 'NUMQI_VERIF',
            'enable': 'no hook is compiled into husisy/numqi: every seam (entropy, global generators, clock, memo tables, solver, trace-based fault points) is installed from /verif by attribute replacement for the duration of a run; ./check exports NUMQI_VERIF=1 only as a marker',
            'baseline_off_cmd': 'cd /repo && /venv/bin/python -m pytest -ra -q -p no:cacheprovider --timeout=900 --continue-on-collection-errors',
            'source_commits': [],
            'add_only': True,
        },
        'engines': [{'name': 'simkit', 'path': '/verif/simkit', 'serves_properties': claimed,
                     'kind_free_text': 'deterministic simulator: seeded plan generator, seams for entropy/clock/caches/global RNGs, sys.monitoring fault injector and baton-passing thread interleaver, reference-model oracles, ddmin shrinker, replay files'}],
        'checks': checks,
        'not_applicable': na,
        'notes': 'See DESIGN.md (§0 verdicts, §8 as built) and README.md. 17 of 20 properties are pure functions of their inputs and are not simulation targets; C07, C10, C11 are simulated. Four genuine defects found on the unchanged tree were repaired by fix: commits in /repo and are listed as fixed entries in known_findings.json (they suppress nothing). selftest/ holds the determinism and sensitivity self-tests with their last results; seeded/ holds 93 independently written breakages and what caught them.',
    }
    with open(os.path.join(HERE, 'MANIFEST.json'), 'w') as f:
        json.dump(m, f, indent=1)
    jsonschema.validate(m, json.load(open('/root/.vp/MANIFEST.schema.json')))
    print('MANIFEST ok; claimed', claimed)


if __name__ == '__main__':
    main()
