#!/bin/bash
# tools/try_seeded.sh <worktree> <patch.diff> <demo.py> <PROP> [extra check args]
# Confirms a seeded change in a scratch worktree (demo fails with / passes without) and runs the property's quick check
# against that worktree (NUMQI_VERIF_REPO) with the change applied. Never touches /repo.
WT="$1"; PATCH="$2"; DEMO="$3"; PROP="$4"; shift 4
cd "$WT" || exit 2
git checkout -q -- . || exit 2
PYTHONPATH="$WT/python" /venv/bin/python "$DEMO" >/dev/null 2>&1; echo "demo without patch: exit=$?"
git apply "$PATCH" || { echo "patch does not apply"; exit 2; }
PYTHONPATH="$WT/python" /venv/bin/python "$DEMO" >/dev/null 2>&1; echo "demo with patch:    exit=$?"
NUMQI_VERIF_REPO="$WT" /verif/check "$PROP" quick --no-evidence "$@" 2>&1 | grep -v "^fixed:" | tail -12
echo "check exit=${PIPESTATUS[0]}"
git checkout -q -- .
