#!/bin/bash
# tools/run_seeded.sh <id|all> [extra check args]: apply a seeded change in a throw-away worktree and run its property's quick check
ID="$1"; shift
if [ "$ID" = all ]; then
  rc=0
  for d in /verif/seeded/*/; do "$0" "$(basename "$d")" "$@" || rc=1; done
  exit $rc
fi
D=/verif/seeded/$ID
PROP=$(/venv/bin/python -c "import json;print(json.load(open('$D/meta.json'))['property'])")
WT=$(mktemp -d /tmp/numqi_seeded_XXXX)
git -C /repo worktree add --detach -q "$WT" HEAD || exit 2
cp /repo/python/numqi/_version.py "$WT/python/numqi/_version.py" 2>/dev/null
( cd "$WT" && git apply "$D/patch.diff" ) || { echo "$ID: patch does not apply"; git -C /repo worktree remove --force "$WT"; exit 2; }
PYTHONPATH="$WT/python" /venv/bin/python "$D/demo.py" >/dev/null 2>&1; demo=$?
out=$(NUMQI_VERIF_REPO="$WT" /verif/check "$PROP" quick --no-evidence "$@" 2>&1); rc=$?
git -C /repo worktree remove --force "$WT"
# replays are left for the caller to clean (concurrent loops must not delete each other's files)
n=$(echo "$out" | grep -c "^VIOLATION")
MISS=$(/venv/bin/python -c "import json;print(int(bool(json.load(open('$D/meta.json')).get('expected_miss'))))")
echo "$ID property=$PROP demo_with_patch_exit=$demo check_exit=$rc violation_lines=$n expected_miss=$MISS $(echo "$out" | grep '^violation' | sed 's/.*oracle=\([^ ]*\) api=\([^ ]*\).*/\1:\2/' | sort -u | tr '\n' ' ')"
if [ "$MISS" = 1 ]; then [ $rc -eq 0 ] || [ $rc -eq 1 ]; else [ $rc -eq 1 ]; fi
