"""C10 engine: seeded APIs are functions of (arguments, seed) only, and generators return members of the set they
advertise, under arbitrary intervening history: the simulator owns OS entropy, the three process-global generators,
the wall clock, the memo tables and (for the convex-hull solver) solver failures (DESIGN §4).
"""
import copy
import random

import numpy as np

from engines import c10_registry as reg
from simkit import faults, rng as srng, seams, trace

PROPERTY = 'C10'
RULE = ('each run = one seeded Plan: 1-3 call specs (function, admissible arguments, integer seed) each evaluated at >=2 positions of a history of '
        'unseeded calls, global-generator perturbations/re-seeds (numpy legacy, python random, torch; also re-seeded with the call\'s own seed), cache wipes, '
        'clock jumps, construction of unrelated numqi objects, injected KeyboardInterrupt/MemoryError inside a seeded call, forced solver failures and '
        'pristine-process re-evaluation; the first runs are stratified round-robin over all registry entries; non-trivial = some spec was evaluated >=2 times '
        'with >=1 entropy-advancing or global-perturbing operation in between; distinct = distinct sha256 of (calls, ops)')
COMPONENTS = {
    'real': ['every public function of numqi.random (all optional-argument branches of the registry)', 'numpy bit generators / random.Random',
             'numqi.sim.state.measure_quantum_vector, Circuit.measure/MeasureGate, CliffordCircuit(seed)', 'numqi.utils.get_purification, matrix_space.get_completed_entangled_subspace, entangle.pureb_quantum.get_mps_dicke_transform_matrix',
             'numqi.optimize.minimize / minimize_adam / MinimizeCallback with scipy L-BFGS-B and torch autograd', 'CHABoundaryBagging.solve with cvxpy+Clarabel', 'AutodiffCHAREE.get_boundary, PureBosonicExt.get_boundary'],
    'stubbed': ['OS entropy (np.random.default_rng(None), random.Random() -> sim-owned stream)', 'wall clock seen by numqi.optimize (virtual clock)',
                'cvxpy.Problem.solve failure wrapper (returns inf on scheduled calls, otherwise passes through)', 'memo tables wiped / re-sized'],
}
ASSUMPTIONS = [
    'integer seeds only (Generator-valued seeds are not claimed)', 'BLAS/torch pinned to one thread (multi-thread reduction order is outside the property)',
    'membership predicates (models/membership.py) encode the documented return contract with tolerance 1e-9..1e-8',
    'argument generators are restricted to admissible combinations', 'for solver-backed APIs an exception is an outcome: the same exception class must recur',
]


def budget(tier):
    if tier == 'quick':
        return {'runs': 1500, 'wall_cap_s': 110, 'per_run_timeout_s': 300, 'shrink_tests': 200}
    return {'runs': 80000, 'wall_cap_s': 2400, 'per_run_timeout_s': 600, 'shrink_tests': 400}


# ------------------------------------------------------------------------------------------------ generation
NAMES = list(reg.R.keys())
WHICH = ['numpy', 'python', 'torch']
CONSTRUCT = ['sphere', 'stiefel', 'trace1psd', 'pureb_quantum', 'rand_unseeded']


def _mk_spec(r, name):
    e = reg.R[name]
    spec = {'fn': name, 'args': e['gen'](r), 'seed': srng.weighted(r, [(r.randrange(0, 16), 3), (r.getrandbits(32), 6), (2 ** 32 - 1, 0.3), (0, 0.7)])}
    if name == 'CHABoundaryBagging.solve' and r.random() < 0.4:
        spec['solver_fail'] = r.randint(1, 3)
    return spec


def _noise_op(r, spec_seed, use_clock):
    k = srng.weighted(r, [('perturb', 4), ('reseed', 3), ('wipe', 1.5), ('clock', 1.5 if use_clock else 0), ('construct', 1.5)])
    if k == 'perturb':
        return {'op': 'perturb', 'which': r.choice(WHICH), 'n': r.randint(1, 7)}
    if k == 'reseed':
        return {'op': 'reseed', 'which': r.choice(WHICH), 's': spec_seed if r.random() < 0.5 else r.getrandbits(32)}
    if k == 'wipe':
        return {'op': 'wipe'}
    if k == 'clock':
        return {'op': 'clock', 'd': r.choice([5.0, -100.0, 1e9, 0.25, -1e9, 3600.0])}
    return {'op': 'construct', 'what': r.choice(CONSTRUCT)}


def generate(run_seed, index, tier):
    st = srng.Streams(run_seed)
    cfg_r, r, fr = st['config'], st['program'], st['faults']
    thorough = tier == 'thorough'
    lru = srng.weighted(cfg_r, [(None, 7), (0, 1), (1, 1), (2, 1)])
    fault_rate = srng.weighted(cfg_r, [(0.0, 5), (0.15, 3), (0.4, 2)])
    fault_kinds = [k for k in ('interrupt', 'alloc_fail') if cfg_r.random() < 0.7] or ['interrupt']
    p_pristine = srng.weighted(cfg_r, [(0.0, 6), (0.5, 3), (1.0, 1)]) if not thorough else srng.weighted(cfg_r, [(0.0, 3), (0.5, 4), (1.0, 3)])
    heavy_frac = 0.11 if not thorough else 0.12
    strat = index < 3 * len(NAMES)
    if strat:
        names = [NAMES[index % len(NAMES)]]
        if index < len(NAMES):
            lru, fault_rate = None, 0.0
    else:
        pool = reg.HEAVY if cfg_r.random() < heavy_frac else reg.LIGHT
        tab = [(n, reg.R[n]['weight']) for n in pool]
        names = [srng.weighted(r, tab) for _ in range(1 if pool is reg.HEAVY else r.randint(1, 3))]
    heavy = any(reg.R[n]['heavy'] for n in names)
    calls = [_mk_spec(r, n) for n in names]
    if heavy and names[0].startswith('optimize.') and r.random() < 0.6:
        # the sibling optimizer API on the SAME model object (cross-API history: minimize leaves gradients/parameters behind)
        sib = 'optimize.minimize_adam' if names[0] == 'optimize.minimize' else 'optimize.minimize'
        spec = _mk_spec(r, sib)
        for key in ('model', 'n', 'mseed'):
            spec['args'][key] = calls[0]['args'][key]
        spec['args']['reuse'] = True
        calls[0]['args']['reuse'] = True
        calls.append(spec)
        names = names + [sib]
    if (not heavy) and (not strat) and r.random() < 0.3:
        # a sibling spec: same function, SAME seed, other arguments (a cache keyed on too few arguments answers it with the
        # first spec's result); both are re-computed in the pristine process
        fresh = reg.R[calls[0]['fn']]['gen'](r)
        keys = [k for k in reg.SIB_KEYS.get(calls[0]['fn'], []) if fresh.get(k) != calls[0]['args'].get(k)]
        if keys and r.random() < 0.7:
            args = copy.deepcopy(calls[0]['args'])  # change ONE argument only
            k1 = r.choice(keys)
            args[k1] = fresh[k1]
            if calls[0]['fn'] == 'get_purification':
                args['dimR'] = max(args['dimR'], args['d'])
            fresh = args
        sib = {'fn': calls[0]['fn'], 'args': fresh, 'seed': calls[0]['seed']}
        if sib['args'] != calls[0]['args']:
            calls.append(sib)
            names = names + [sib['fn']]
            p_pristine = 1.0
    use_clock = any(n.startswith('optimize.') or 'Boundary' in n or 'get_boundary' in n for n in names)
    ops = []
    for k, spec in enumerate(calls):
        nev = 2 if heavy else r.randint(2, 4)
        for j in range(nev):
            o = {'op': 'call', 'id': k}
            if j > 0 and r.random() < 0.25:
                o['seed_type'] = r.choice(['np.int64', 'np.uint64'])
            if fault_rate and fr.random() < fault_rate and not (heavy and reg.R[spec['fn']]['solver'] and spec['fn'] != 'CHABoundaryBagging.solve'):
                o['fault'] = {'kind': fr.choice(fault_kinds), 'frac': round(fr.random(), 4)}
            ops.append(o)
            if j < nev - 1:
                # at least one entropy-advancing or global-perturbing operation between two evaluations
                if r.random() < 0.5 and not heavy:
                    ops.append({'op': 'ucall', 'id': r.randrange(len(calls))})
                else:
                    ops.append(_noise_op(r, spec['seed'], use_clock))
                for _ in range(r.randint(0, 2)):
                    ops.append(_noise_op(r, spec['seed'], use_clock) if r.random() < 0.7 or heavy else {'op': 'ucall', 'id': r.randrange(len(calls))})
        if r.random() < p_pristine:
            ops.append({'op': 'pristine', 'id': k})
    # interleave evaluations of different specs a little: rotate blocks
    if len(calls) > 1 and r.random() < 0.6:
        idx = [i for i, o in enumerate(ops) if o['op'] == 'call']
        a, b = r.sample(idx, 2)
        ops[a], ops[b] = ops[b], ops[a]
        # keep the invariant (something between two evaluations of the same spec) by inserting noise after every call
        new = []
        for o in ops:
            new.append(o)
            if o['op'] == 'call':
                new.append(_noise_op(r, calls[o['id']]['seed'], use_clock))
        ops = new
    thr_r = st['threads']  # its own stream: everything above is unchanged by this branch
    if (not strat) and (not heavy) and thr_r.random() < 0.15:
        # two caller threads evaluate seeded calls at the same time (DESIGN §8.8): every hand-over is chosen here
        for _ in range(thr_r.randint(1, 2)):
            if thr_r.random() < 0.5:
                ops.append({'op': 'wipe'})
            ops.append({'op': 'conc', 'ids': [thr_r.randrange(len(calls)), thr_r.randrange(len(calls))],
                        'quanta': [thr_r.choice([1, 2, 3, 5, 8, 13, 21, 34]) for _ in range(thr_r.randint(1, 12) if thr_r.random() < 0.7 else thr_r.randint(13, 60))]})
    return {'engine': PROPERTY, 'config': {'lru': lru, 'entropy': cfg_r.getrandbits(32), 'clock_script_seed': cfg_r.getrandbits(16)}, 'calls': calls, 'ops': ops}


def simplify(plan):
    ops = plan['ops']
    for i, o in enumerate(ops):
        if o['op'] == 'conc' and len(o['quanta']) > 1:
            for j in range(len(o['quanta'])):
                p = copy.deepcopy(plan)
                del p['ops'][i]['quanta'][j]
                yield p
    for i, o in enumerate(ops):
        if 'fault' in o:
            p = copy.deepcopy(plan)
            del p['ops'][i]['fault']
            yield p
    if plan['config'].get('lru') is not None:
        p = copy.deepcopy(plan)
        p['config']['lru'] = None
        yield p
    for k, c in enumerate(plan['calls']):
        if c['seed'] != 0:
            p = copy.deepcopy(plan)
            p['calls'][k]['seed'] = 0
            yield p
        if 'solver_fail' in c:
            p = copy.deepcopy(plan)
            del p['calls'][k]['solver_fail']
            yield p
    for i, o in enumerate(ops):
        if o['op'] in ('ucall', 'reseed', 'construct', 'clock', 'wipe'):
            p = copy.deepcopy(plan)
            p['ops'][i] = {'op': 'perturb', 'which': 'numpy', 'n': 1}
            yield p


# ------------------------------------------------------------------------------------------------ execution
class Violation(Exception):
    def __init__(self, oracle, api, detail):
        self.oracle, self.api, self.detail = oracle, api, detail


class _SolverFail:
    """pass-through wrapper around cvxpy.Problem.solve that returns inf for the first n calls"""

    def __init__(self, n):
        self.n = n
        self.fired = 0

    def __enter__(self):
        import cvxpy
        self.cvxpy = cvxpy
        self.orig = cvxpy.Problem.solve
        me = self

        def solve(prob, *a, **k):
            if me.fired < me.n:
                me.fired += 1
                return float('inf')
            return me.orig(prob, *a, **k)
        cvxpy.Problem.solve = solve
        return self

    def __exit__(self, *exc):
        self.cvxpy.Problem.solve = self.orig
        return False


def outcome_of(nq, spec, seeded, ctx, clock=None, seed_type='int'):
    """-> (kind, digest, value): kind 'ok' with the canonical digest of the value, or 'exc' with the exception class (solver-backed APIs only)"""
    e = reg.R[spec['fn']]
    try:
        if spec.get('solver_fail'):
            with _SolverFail(int(spec['solver_fail'])) as sf:
                val = reg.evaluate(nq, spec, seeded, ctx, seed_type)
        else:
            val = reg.evaluate(nq, spec, seeded, ctx, seed_type)
    except Exception as ex:
        if e['solver']:
            return 'exc', type(ex).__name__, None
        raise
    cb_time = None
    if isinstance(val, dict) and 'cb_time' in val:
        val = dict(val)
        cb_time = val.pop('cb_time')
    return 'ok', trace.digest(val), (val, cb_time)


def _scribble(v):
    """overwrite every writable ndarray reachable from a returned value (what a caller doing `ret *= 0` would do)"""
    n = 0
    if isinstance(v, np.ndarray):
        if v.flags.writeable and v.size:
            try:
                v[...] = (v.dtype.type(1) if v.dtype.kind in 'ui' else v.dtype.type(-7.25)) if v.dtype.kind in 'uifc' else v
                n += 1
            except (ValueError, TypeError):
                pass
    elif isinstance(v, (list, tuple)):
        for x in v:
            n += _scribble(x)
    elif isinstance(v, dict):
        for x in v.values():
            n += _scribble(x)
    elif hasattr(v, 'F2') and isinstance(getattr(v, 'F2'), np.ndarray):
        n += _scribble(v.F2)
    return n


class Sim:
    def __init__(self, plan, keep_events):
        import numqi
        self.nq = numqi
        self.plan = plan
        self.log = trace.EventLog(keep=keep_events)
        self.stats = {}
        self.cover = {'entries': set(), 'branches': set()}
        self.inj = faults.Injector()
        self.ref = {}  # id -> (kind, digest)
        self.evals = {}  # id -> count of completed seeded evaluations
        self.dirty = {}  # id -> something entropy-advancing happened since the last evaluation
        self.nontrivial = False
        self.ctx = {}
        self.shape = []

    def bump(self, k, v=1):
        self.stats[k] = self.stats.get(k, 0) + v

    def mark_dirty(self):
        for k in self.dirty:
            self.dirty[k] = True

    def seeded_eval(self, world, i, op):
        k = op['id']
        if k >= len(self.plan['calls']):
            return
        spec = self.plan['calls'][k]
        e = reg.R[spec['fn']]
        api = spec['fn']
        flt = op.get('fault')
        clock = world.clock
        script = None
        if clock is not None:
            cr = random.Random(self.plan['config'].get('clock_script_seed', 0) * 1000 + i)
            script = [cr.choice([0.25, 3.0, 5.0, -100.0, 1e9, 0.0, 17.5]) for _ in range(400)]
            clock.script = list(script)

        seed_type = op.get('seed_type', 'int')

        def run():
            return outcome_of(self.nq, spec, True, self.ctx, seed_type=seed_type)

        def guarded(fn):
            try:
                return fn()
            except Violation:
                raise
            except Exception as ex:
                raise Violation('unexpected_exception', api, f'{type(ex).__name__}: {ex} args={spec["args"]} seed={spec["seed"]}')
        if flt:
            kind = flt['kind']
            self.bump(f'fault.{kind}.configured')
            world.cache_wipe()
            res0, npts = guarded(lambda: self.inj.count(run))
            self.record(k, spec, res0, 'count-run', world, script)
            if clock is not None:
                clock.script = list(script)
            world.cache_wipe()
            kk = min(int(flt['frac'] * npts), max(npts - 1, 0))
            try:
                res, fired, exc = self.inj.inject(run, kk, faults.EXC[kind])
            except Exception as ex:
                if self.inj.fired_at is None:
                    raise Violation('unexpected_exception', api, f'{type(ex).__name__}: {ex} args={spec["args"]} seed={spec["seed"]}')
                res, fired, exc = None, True, ex
            self.log.add('fault', kind, kk, npts, bool(fired), str(self.inj.fired_at))
            if self.inj.fired_at is not None:
                self.cover.setdefault('fault_sites', set()).add(f'{self.inj.fired_at[0]}:{self.inj.fired_at[1]}')
            self.stats['max.injection_points_in_one_op'] = max(self.stats.get('max.injection_points_in_one_op', 0), int(npts))
            if fired:
                self.bump(f'fault.{kind}.fired')
                self.bump('probe.third_party_state_restored', seams.third_party_state_restore())
                self.mark_dirty()
                if exc is not None or res is None:
                    self.shape.append('F')
                    self.after_fault = getattr(self, 'after_fault', set()) | {k}
                    return
                if res[0] == 'exc':
                    # the solver-backed API turned the injected exception into its own failure: not an outcome to compare
                    self.shape.append('F')
                    return
            self.record(k, spec, res, 'after-fault-injection-run', world, script)
        else:
            res = guarded(run)
            self.record(k, spec, res, 'plain', world, script)

    def record(self, k, spec, res, how, world, script):
        kind, dig, payload = res
        api = spec['fn']
        e = reg.R[api]
        self.log.add('eval', k, api, kind, dig)
        self.cover['entries'].add(api)
        self.cover['branches'].add(api + '|' + e['branch'](spec['args']))
        self.bump('seeded_evaluations')
        self.shape.append('c')
        if kind == 'ok':
            val, cb_time = payload
            if e['member'] is not None:
                why = e['member'](self.nq, spec['args'], val)
                self.bump('membership_checks')
                if why:
                    raise Violation('member_of_set', api, f'{why}; args={spec["args"]} seed={spec["seed"]}')
            if cb_time is not None and script is not None and spec['args'].get('num_repeat') == 1:
                exp = script[1:1 + len(cb_time)]
                if [float(x) for x in cb_time] == [float(x) for x in exp]:
                    self.bump('probe.clock_seam_verified')
                else:
                    self.bump('probe.clock_seam_mismatch')
        else:
            self.bump('solver_exception_outcomes')
        if kind == 'ok' and e.get('fresh_result', True) and spec.get('scribble', True):
            # the caller owns what a generator returned and may overwrite it in place; a later call must not see that
            n = _scribble(payload[0])
            if n:
                self.bump('fault.caller_overwrites_result.configured')
                self.bump('fault.caller_overwrites_result.fired')
        if k in self.ref:
            if self.ref[k] != (kind, dig):
                oracle = 'retry_after_fault' if k in getattr(self, 'after_fault', set()) else 'same_seed_same_bits'
                raise Violation(oracle, api, f'evaluation #{self.evals[k] + 1} ({how}) of {api}(args={spec["args"]}, seed={spec["seed"]}) gave {kind}:{dig}, the first gave {self.ref[k][0]}:{self.ref[k][1]}')
            if self.dirty.get(k):
                self.nontrivial = True
                self.bump('reproducibility_pairs_checked')
        else:
            self.ref[k] = (kind, dig)
        self.evals[k] = self.evals.get(k, 0) + 1
        self.dirty[k] = False
        if how == 'after-fault-injection-run':
            pass

    def step(self, world, i, op):
        kind = op['op']
        nq = self.nq
        if kind == 'call':
            self.seeded_eval(world, i, op)
        elif kind == 'ucall':
            k = op['id']
            if k >= len(self.plan['calls']):
                return
            spec = self.plan['calls'][k]
            e = reg.R[spec['fn']]
            if e['heavy']:
                return
            try:
                val = reg.evaluate(nq, spec, False, self.ctx)
            except Exception as ex:
                raise Violation('unexpected_exception', spec['fn'], f'unseeded call: {type(ex).__name__}: {ex} args={spec["args"]}')
            if e['member'] is not None:
                why = e['member'](nq, spec['args'], val)
                self.bump('membership_checks')
                if why:
                    raise Violation('member_of_set', spec['fn'], f'{why}; args={spec["args"]} unseeded')
            self.log.add('ucall', k, trace.digest(val))
            self.bump('unseeded_calls')
            self.mark_dirty()
            self.shape.append('u')
        elif kind == 'perturb':
            world.perturb_global(op['which'], op['n'])
            self.bump(f'fault.global_rng_perturb.configured')
            self.bump(f'fault.global_rng_perturb.fired')
            self.mark_dirty()
            self.shape.append('p')
        elif kind == 'reseed':
            world.reseed_global(op['which'], op['s'])
            self.bump(f'fault.global_rng_reseed.configured')
            self.bump(f'fault.global_rng_reseed.fired')
            self.mark_dirty()
            self.shape.append('s')
        elif kind == 'wipe':
            world.cache_wipe()
            self.bump('fault.cache_wipe.configured')
            self.bump('fault.cache_wipe.fired')
            self.shape.append('w')
        elif kind == 'clock':
            if world.clock is not None:
                world.clock.jump(op['d'])
                self.bump('fault.clock_jump.configured')
                self.bump('fault.clock_jump.fired')
                self.shape.append('t')
        elif kind == 'construct':
            import torch
            w = op['what']
            try:
                if w == 'sphere':
                    nq.manifold.Sphere(5)
                elif w == 'stiefel':
                    nq.manifold.Stiefel(4, 2)
                elif w == 'trace1psd':
                    nq.manifold.Trace1PSD(3)
                elif w == 'pureb_quantum':
                    nq.entangle.pureb_quantum.QuantumPureBosonicExt(2, 2, 3, 1)
                else:
                    nq.random.rand_haar_state(4)
                    nq.random.rand_SpF2(2)
            except Exception as ex:
                self.bump('probe.construct_failed')
            self.bump('unrelated_constructions')
            self.mark_dirty()
            self.shape.append('o')
        elif kind == 'conc':
            ids = [k for k in op['ids'] if k < len(self.plan['calls'])]
            specs = [self.plan['calls'][k] for k in ids]
            if len(ids) != 2 or any(reg.R[sp['fn']]['heavy'] or reg.R[sp['fn']]['solver'] or '[' in sp['fn'] for sp in specs):
                return  # heavy specs re-use harness-owned model objects, bracketed variants install process-wide seams: one thread only
            il = faults.Interleaver()
            res = il.run([(lambda sp=sp: outcome_of(self.nq, sp, True, None)) for sp in specs], list(op['quanta']))
            self.bump('fault.thread_preemption.configured', len(op['quanta']))
            self.bump('fault.thread_preemption.fired', il.switches)
            self.bump('conc_ops')
            self.stats['max.points_in_one_conc'] = max(self.stats.get('max.points_in_one_conc', 0), il.points)
            self.log.add('conc', ids, il.points, il.switches)
            self.mark_dirty()
            for k, sp, (st_, val) in zip(ids, specs, res):
                if st_ == 'exc':
                    raise Violation('unexpected_exception', sp['fn'], f'{type(val).__name__}: {val} args={sp["args"]} seed={sp["seed"]} (while another caller thread was parked inside numqi)')
                self.record(k, sp, val, 'on a caller thread interleaved with another seeded call', world, None)
            self.shape.append('T')
        elif kind == 'pristine':
            k = op['id']
            if k >= len(self.plan['calls']) or k not in self.ref:
                return
            from simkit import pristine
            spec = self.plan['calls'][k]
            resp = pristine.client().ask(spec)
            self.bump('pristine_process_digests')
            if resp['kind'] == 'server_error':
                raise RuntimeError('pristine server error: ' + resp['digest'])
            if (resp['kind'], resp['digest']) != self.ref[k]:
                raise Violation('pristine_process', spec['fn'], f'{spec["fn"]}(args={spec["args"]}, seed={spec["seed"]}) gave {self.ref[k]} in the simulated run and {(resp["kind"], resp["digest"])} in a fresh interpreter with no history')
            self.log.add('pristine', k, 'equal')
            self.shape.append('x')


def execute(plan, keep_events=False):
    cfg = plan['config']
    sim = Sim(plan, keep_events)
    violation = None
    clock = seams.VirtualClock()
    with seams.World(random.Random(cfg.get('entropy', 0)), lru_maxsize=cfg.get('lru'), clock=clock) as world:
        sim.log.add('start', cfg.get('lru'))
        i = -1
        try:
            for i, op in enumerate(plan['ops']):
                sim.step(world, i, op)
        except Violation as v:
            violation = {'oracle': v.oracle, 'api': v.api, 'op_index': i, 'detail': v.detail, 'op': plan['ops'][i]}
            sim.log.add('violation', v.oracle, v.api, i)
        except Exception as e:
            # safety net: an exception raised *inside numqi code* that escaped the per-call wrappers is the SUT's, not the harness's
            import traceback
            tb = traceback.extract_tb(e.__traceback__)
            if not tb or '/numqi/' not in tb[-1].filename:
                raise
            violation = {'oracle': 'unexpected_exception', 'api': tb[-1].name, 'op_index': i, 'detail': f'{type(e).__name__}: {e} (raised in {tb[-1].filename.split("/numqi/")[-1]}:{tb[-1].lineno})', 'op': plan['ops'][i]}
            sim.log.add('violation', 'unexpected_exception', tb[-1].name, i)
        sim.stats['entropy_draws'] = world.entropy.draws
        sim.stats['simulated_clock_seconds_abs'] = int(min(clock.total_advance, 1e15))
        sim.stats['clock_reads'] = clock.reads
        sites = dict(world.entropy.sites)
    sim.bump('ops', len(plan['ops']))
    res = {
        'digest': sim.log.hexdigest(),
        'violation': violation,
        'stats': sim.stats,
        'cover': {k: sorted(v) for k, v in sim.cover.items() if v},
        'shape': ''.join(sim.shape)[:40],
        'nontrivial': sim.nontrivial,
        'plan_digest': trace.digest(repr((plan['calls'], plan['ops']))),
    }
    if violation is not None:
        violation['unseeded_draw_sites'] = sites
    if keep_events:
        res['events'] = sim.log.events
    return res


def evidence_extra(stats, cover, results):
    allb = set()
    return {
        'state_coverage': {
            'registry_entries_exercised': len(cover.get('entries', ())), 'registry_size': len(reg.R),
            'function_branch_pairs_exercised': len(cover.get('branches', ())),
            'entries': sorted(cover.get('entries', ())),
            'measure': '(function, optional-argument branch) pairs whose seeded evaluation was compared / membership-checked',
        },
        'simulated_time': {'unit': 'virtual clock seconds (sum of |advance|, capped at 1e15 per run)', 'seconds': stats.get('simulated_clock_seconds_abs', 0),
                           'clock_reads': stats.get('clock_reads', 0)},
    }
