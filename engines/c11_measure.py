"""C11 engine: projective measurement on any qubit subset, on a register and inside circuits, with the scheduler (not
numpy) choosing every outcome; checked against the bit-mask Born model (DESIGN §5).

SUT (real code): numqi.sim.state.measure_quantum_vector (+ its cached grouping helper), numqi.sim.circuit.MeasureGate,
Circuit.measure / apply_state / shift_qubit_index_ / register_custom_gate, CircuitTorchWrapper.forward with measure gates.
"""
import copy
import random

import numpy as np

from models import born
from simkit import faults, rng as srng, seams, trace

PROPERTY = 'C11'
RULE = ('each run = one seeded Plan: either a register history (prepare / model-applied gates / measure subset with a scheduler-picked or '
        'integer-seeded outcome / re-measure / nested measure / cache wipe / injected exception inside the measurement) or a circuit history '
        '(build gates, several measure gates, classical-control gates reading an earlier MeasureGate, run, run again, shift qubit indices, run '
        'through CircuitTorchWrapper, interrupt inside apply_state); the first 240 runs are stratified over all 120 (n<=6, non-empty subset) '
        'pairs; non-trivial = >=1 measurement fully checked; distinct = distinct sha256 of the op list')
COMPONENTS = {
    'real': ['numqi.sim.state.measure_quantum_vector and _measure_quantum_vector_hf0 (lru_cache, wiped / re-sized by the simulator)',
             'numqi.sim.circuit.MeasureGate, Circuit.measure/apply_state/shift_qubit_index_/register_custom_gate, builder methods',
             'numqi.sim.state.apply_gate / apply_control_n_gate (as workload inside circuits)', 'CircuitTorchWrapper.forward', 'numpy Generator.choice validation of p'],
    'stubbed': ['the outcome chooser (ScriptedGenerator returns the scheduler-picked element of the support {p>1e-11})', 'OS entropy'],
}
ASSUMPTIONS = [
    'bit-mask Born model (models/born.py) is correct; qubit 0 is the most significant bit',
    'outcomes with probability <= 1e-11 are treated as unreachable by the scheduler (rounding-noise outcomes are ~1e-32; states with probabilities 1e-8..1e-10 are generated on purpose)',
    'a MeasureGate is never shared between two circuits; classical-control gates are user code (harness-owned) and are shifted by the harness',
    'complex128 / float64 states, n<=6 qubits; tolerances 1e-9',
]

TOL = 1e-9
FLOOR = 1e-11  # circuits: outcomes below this are unreachable for the scheduler (the SUT applies the gates itself: its 1e-16 rounding noise is amplified by 1/sqrt(p))
RFLOOR = 1e-24  # register: the SUT measures the very array the model holds, so forcing outcomes down to 1e-24 is exact up to relative rounding (noise outcomes are ~1e-32)


def budget(tier):
    if tier == 'quick':
        return {'runs': 6000, 'wall_cap_s': 100, 'per_run_timeout_s': 60, 'shrink_tests': 400}
    return {'runs': 500000, 'wall_cap_s': 1500, 'per_run_timeout_s': 120, 'shrink_tests': 800}


def all_pairs():
    out = []
    for n in range(1, 7):
        for m in range(1, 2 ** n):
            out.append((n, [q for q in range(n) if (m >> (n - 1 - q)) & 1]))
    return out


PAIRS = all_pairs()  # 120


def complement_runs(n, S):
    s = set(S)
    runs, prev = 0, False
    for q in range(n):
        cur = q not in s
        if cur and not prev:
            runs += 1
        prev = cur
    return runs


# ------------------------------------------------------------------------------------------------ generation
def _rand_subset(r, n):
    m = r.randrange(1, 2 ** n)
    return [q for q in range(n) if (m >> q) & 1]


def _gate_op(r, n, prefix=''):
    kinds = [('H', 3), ('X', 2), ('Z', 1), ('S', 1), ('T', 1), ('u1', 3), ('rx', 2)]
    if n >= 2:
        kinds += [('cnot', 3), ('cz', 1), ('swap', 1), ('u2', 2), ('cu', 2)]
    if n >= 3:
        kinds += [('toffoli', 2), ('cu2', 2)]
    g = srng.weighted(r, kinds)
    o = {'op': prefix + 'gate', 'g': g}
    if g in ('H', 'X', 'Z', 'S', 'T', 'u1', 'rx'):
        o['q'] = [r.randrange(n)]
    elif g in ('cnot', 'cz', 'swap', 'u2'):
        o['q'] = r.sample(range(n), 2)
    elif g == 'cu':
        k = r.randint(1, min(2, n - 1))
        o['q'] = r.sample(range(n), k + 1)  # first k are controls, last is the target
    elif g == 'cu2':
        k = r.randint(1, min(2, n - 2))
        o['q'] = r.sample(range(n), k + 2)  # first k are controls, last two are the (ordered) targets
    else:
        o['q'] = r.sample(range(n), 3)
    if g in ('u1', 'u2', 'cu', 'cu2'):
        o['seed'] = r.getrandbits(32)
    if g == 'rx':
        o['theta'] = round(r.uniform(-4, 4), 6)
    return o


def generate(run_seed, index, tier):
    st = srng.Streams(run_seed)
    cfg_r, r, fr = st['config'], st['program'], st['faults']
    thorough = tier == 'thorough'
    lru = srng.weighted(cfg_r, [(None, 6), (0, 1), (1, 2), (2, 1)])
    fault_rate = srng.weighted(cfg_r, [(0.0, 5), (0.1, 3), (0.3, 2)])
    fault_kinds = [k for k in ('interrupt', 'alloc_fail') if cfg_r.random() < 0.7] or ['interrupt']
    use_wipe = cfg_r.random() < 0.3
    mode = srng.weighted(cfg_r, [('register', 6), ('circuit', 4)])
    n = srng.weighted(cfg_r, [(1, 1), (2, 2), (3, 3), (4, 3), (5, 3), (6, 2)])
    ops = []
    stratified = index < 2 * len(PAIRS)

    def maybe_fault(o):
        if fault_rate and fr.random() < fault_rate:
            o['fault'] = {'kind': fr.choice(fault_kinds), 'frac': round(fr.random(), 4)}
        return o

    def prep():
        return {'kind': r.choice(born.STATE_KINDS), 'seed': r.getrandbits(32)}

    if stratified:
        mode = 'register'
        n, S = PAIRS[index % len(PAIRS)]
        kind = 'haar' if index < len(PAIRS) else r.choice(born.STATE_KINDS)
        if index < len(PAIRS):
            lru, fault_rate, use_wipe = None, 0.0, False
        ops.append({'op': 'prepare', 'kind': kind, 'seed': r.getrandbits(32)})
        ops.append({'op': 'measure', 'S': S, 'pick': r.randrange(64)})
        ops.append({'op': 'remeasure', 'pick': r.randrange(64)})
    if mode == 'register':
        L = srng.weighted(cfg_r, [(r.randint(1, 5), 6), (r.randint(6, 12), 3), (r.randint(13, 25), 1)])
        if not stratified:
            ops.append(dict(op='prepare', **prep()))
        for _ in range(L):
            x = r.random()
            if use_wipe and r.random() < 0.1:
                ops.append({'op': 'wipe'})
            if x < 0.45:
                o = {'op': 'measure', 'S': _rand_subset(r, n)}
                if r.random() < 0.8:
                    o['pick'] = r.randrange(64)
                else:
                    o['seed'] = r.getrandbits(32)
                ops.append(maybe_fault(o))
            elif x < 0.6:
                ops.append(maybe_fault({'op': 'remeasure', 'pick': r.randrange(64)}))
            elif x < 0.7:
                ops.append(maybe_fault({'op': 'nested', 'grow': r.getrandbits(6), 'pick': r.randrange(64)}))
            elif x < 0.73 and r.random() < 0.5:
                ops.append({'op': 'reach', 'S': _rand_subset(r, n), 'seed0': r.getrandbits(31), 'K': 300, 'mode': r.choice(['int', 'int', 'none'])})
            elif x < 0.92:
                ops.append(_gate_op(r, n))
            else:
                o = dict(op='prepare', **prep())
                if r.random() < 0.5:
                    n = r.randint(1, 6)
                    o['n'] = n
                ops.append(o)
        ops.append({'op': 'measure', 'S': _rand_subset(r, n), 'pick': r.randrange(64)})
    else:
        n = max(n, 2) if r.random() < 0.8 else n
        ngates = r.randint(2, 10 if not thorough else 16)
        nmeas = 0
        ops.append({'op': 'c_new'})
        if r.random() < 0.2:
            ops.append({'op': 'c_probe'})
        for _ in range(ngates):
            if r.random() < 0.05:
                ops.append({'op': 'c_probe'})
            if nmeas == 0 and r.random() < 0.15:
                ops.append({'op': 'c_unitary'})
            x = r.random()
            if x < 0.5:
                ops.append(_gate_op(r, n, 'c_'))
            elif x < 0.85 or nmeas == 0:
                if nmeas == 0 and r.random() < 0.3:
                    ops.append({'op': 'c_unitary'})
                o = {'op': 'c_measure', 'S': _rand_subset(r, n)}
                if r.random() < 0.25:
                    o['seed'] = r.getrandbits(32)
                if r.random() < 0.2:
                    o['direct'] = True
                ops.append(o)
                nmeas += 1
            else:
                ops.append({'op': 'c_ctrl', 'm': r.randrange(nmeas), 'bit': r.randrange(6), 'g': r.choice(['X', 'Z', 'H']), 'q': [r.randrange(n)]})
        if r.random() < 0.3:
            body = []
            bm = 0
            for _ in range(r.randint(1, 4)):
                x = r.random()
                if x < 0.4:
                    body.append(_gate_op(r, n, 'c_'))
                elif x < 0.75 or bm == 0:
                    body.append({'op': 'c_measure', 'S': _rand_subset(r, n)})
                    bm += 1
                else:
                    body.append({'op': 'c_ctrl', 'm': -1 - r.randrange(bm), 'bit': r.randrange(6), 'g': r.choice(['X', 'Z', 'H']), 'q': [r.randrange(n)]})
            ops.append({'op': 'c_extend', 'body': body, 'times': r.randint(1, 3)})
        reg_w = r.choice([0, 0, 0, 5, 6, 6])
        use_buffer = r.random() < 0.35
        nruns = r.randint(1, 4)
        for k in range(nruns):
            if use_wipe and r.random() < 0.2:
                ops.append({'op': 'wipe'})
            if r.random() < 0.25:
                ops.append({'op': 'c_shift', 'delta': r.choice([1, 1, 2, -1])})
            if r.random() < 0.2:
                ops.append(_gate_op(r, n, 'c_'))
            if r.random() < 0.15:
                ops.append({'op': 'c_measure', 'S': _rand_subset(r, n)})
            o = {'op': 'c_run', 'prep': prep(), 'picks': [r.randrange(64) for _ in range(12)], 'via': 'torch' if r.random() < 0.2 else 'plain', 'reg': reg_w}
            if r.random() < 0.15:
                o['strided'] = True
            elif use_buffer:
                o['buffer'] = True
            ops.append(maybe_fault(o))
        if r.random() < 0.08:  # many more runs of the same circuit
            for _ in range(r.randint(10, 25)):
                ops.append({'op': 'c_run', 'prep': prep(), 'picks': [r.randrange(64) for _ in range(12)], 'via': 'plain', 'reg': reg_w, 'buffer': use_buffer})
        if r.random() < 0.15:  # a second circuit object in the same process; the first one's records must stay what they were
            ops.append({'op': 'c_new'})
            for _ in range(r.randint(1, 4)):
                ops.append(_gate_op(r, n, 'c_') if r.random() < 0.5 else {'op': 'c_measure', 'S': _rand_subset(r, n)})
            ops.append({'op': 'c_measure', 'S': _rand_subset(r, n)})
        if r.random() < 0.3:
            ops.append({'op': 'c_shift', 'delta': r.choice([1, -1, 2])})
        ops.append({'op': 'c_run', 'prep': prep(), 'picks': [r.randrange(64) for _ in range(12)], 'via': 'plain', 'reg': reg_w})
    return {'engine': PROPERTY, 'config': {'n': n, 'lru': lru, 'entropy': cfg_r.getrandbits(32)}, 'ops': ops}


def simplify(plan):
    ops = plan['ops']
    for i, o in enumerate(ops):
        if 'fault' in o:
            p = copy.deepcopy(plan)
            del p['ops'][i]['fault']
            yield p
    if plan['config'].get('lru') is not None:
        p = copy.deepcopy(plan)
        p['config']['lru'] = None
        yield p
    for i, o in enumerate(ops):
        if o['op'] in ('prepare',) and o['kind'] != 'haar':
            p = copy.deepcopy(plan)
            p['ops'][i]['kind'] = 'haar'
            yield p
        if o['op'] == 'c_run' and (o['prep']['kind'] != 'haar' or o.get('via') != 'plain'):
            p = copy.deepcopy(plan)
            p['ops'][i]['prep']['kind'] = 'haar'
            p['ops'][i]['via'] = 'plain'
            yield p
        if o['op'] in ('measure', 'c_measure') and len(o['S']) > 1:
            for j in range(len(o['S'])):
                p = copy.deepcopy(plan)
                p['ops'][i]['S'] = o['S'][:j] + o['S'][j + 1:]
                yield p
        if o['op'] in ('gate', 'c_gate') and o['g'] not in ('H', 'cnot'):
            p = copy.deepcopy(plan)
            p['ops'][i] = {'op': o['op'], 'g': 'H', 'q': o['q'][-1:]}
            yield p
    if plan['config']['n'] > 1:
        used = [q for o in ops for q in (o.get('S', []) + o.get('q', []))]
        if used and max(used) < plan['config']['n'] - 1:
            p = copy.deepcopy(plan)
            p['config']['n'] = max(used) + 1
            yield p


# ------------------------------------------------------------------------------------------------ execution
class Violation(Exception):
    def __init__(self, oracle, api, detail):
        self.oracle, self.api, self.detail = oracle, api, detail


def _unitary(seed, k):
    r = np.random.Generator(np.random.PCG64(int(seed)))
    d = 2 ** k
    a = r.normal(size=(d, d)) + 1j * r.normal(size=(d, d))
    q, _ = np.linalg.qr(a)
    return q


def gate_spec(o):
    """-> (kind, U, controls, targets) with harness-owned arrays"""
    g, q = o['g'], list(o['q'])
    if g in born.G:
        return 'unitary', born.G[g], [], q
    if g == 'u1':
        return 'unitary', _unitary(o['seed'], 1), [], q
    if g == 'rx':
        return 'unitary', born.rx(o['theta']), [], q
    if g == 'u2':
        return 'unitary', _unitary(o['seed'], 2), [], q
    if g == 'swap':
        return 'unitary', np.array([[1, 0, 0, 0], [0, 0, 1, 0], [0, 1, 0, 0], [0, 0, 0, 1]], dtype=np.complex128), [], q
    if g == 'cnot':
        return 'control', born.G['X'], q[:1], q[1:]
    if g == 'cz':
        return 'control', born.G['Z'], q[:1], q[1:]
    if g == 'toffoli':
        return 'control', born.G['X'], q[:2], q[2:]
    if g == 'cu':
        return 'control', _unitary(o['seed'], 1), q[:-1], q[-1:]
    if g == 'cu2':
        return 'control', _unitary(o['seed'], 2), q[:-2], q[-2:]
    raise ValueError(g)


def model_apply(psi, spec):
    kind, U, ctrl, tgt = spec
    if kind == 'unitary':
        return born.apply_gate(psi, U, tgt)
    return born.apply_controlled(psi, U, ctrl, tgt)


class ClassicalControl:
    """user-level custom gate (as in numqi's teleportation test): applies `op` on `index` iff an earlier measurement's bit is 1"""

    def __init__(self, gateM, bit, op, index, name='classical_control_gate'):
        self.gateM = gateM
        self.bit = bit
        self.op = op
        self.index = index
        self.name = name
        self.requires_grad = False
        self.kind = 'custom'

    def forward(self, q0):
        import numqi
        bs = self.gateM.bitstr
        if bs[self.bit % len(bs)] == 1:
            q0 = numqi.sim.state.apply_gate(q0, self.op, self.index)
        return q0


class Probe:
    """user-level custom gate that only looks at the state (records its norm) and returns its input object unchanged"""

    def __init__(self, name='probe'):
        self.name = name
        self.requires_grad = False
        self.kind = 'custom'
        self.index = ()
        self.seen = []

    def forward(self, q0):
        self.seen.append(float(np.linalg.norm(q0)))
        return q0


class Sim:
    def __init__(self, plan, keep_events):
        import numqi
        self.nq = numqi
        self.plan = plan
        self.n = int(plan['config']['n'])
        self.log = trace.EventLog(keep=keep_events)
        self.stats = {}
        self.cover = {'pairs': set(), 'triples': set(), 'compl_runs': set()}
        self.inj = faults.Injector()
        self.shape = []
        self.psi = None  # register state (harness-owned numpy array)
        self.known = {}  # qubit -> bit, valid until a gate touches the qubit or the state is re-prepared
        self.last = None  # (S, a, post_state)
        self.checked = 0
        # circuit mode
        self.circ = None
        self.desc = []
        self.mgates = []
        self.buffers = {}
        self.stash = []  # (gate, bitstr, probability) of measure gates of earlier circuits of this run
        self.handed = []  # (array object, copy, what) results handed out earlier: they belong to the caller and must not change later

    def bump(self, k, v=1):
        self.stats[k] = self.stats.get(k, 0) + v

    # -------------------------------------------------------------- single measurement with all oracles
    def check_measurement(self, psi, S, bitstr, prob, post, api, scripted_pick=None, sut_prob_for_pick=None):
        n = psi.shape[0].bit_length() - 1
        p = born.marginals(psi, S)
        if not (isinstance(prob, np.ndarray) and prob.shape == (2 ** len(S),)):
            raise Violation('born', api, f'probability has shape {getattr(prob, "shape", None)}, expected ({2**len(S)},) for S={S}')
        if prob.min() < 0 or abs(prob.sum() - 1) > TOL or np.abs(prob - p).max() > TOL:
            raise Violation('born', api, f'probabilities {np.round(prob, 6).tolist()} are not the Born marginals {np.round(p, 6).tolist()} for S={S} of {n} qubits')
        big = p > RFLOOR
        if np.any(np.abs(prob[big] - p[big]) > 1e-6 * p[big]):
            j = int(np.nonzero(big)[0][np.argmax(np.abs(prob[big] - p[big]) / p[big])])
            raise Violation('born', api, f'outcome {j} of S={S} has Born probability {p[j]:.6g} but {prob[j]:.6g} is reported (relative error {abs(prob[j] - p[j]) / p[j]:.3g})')
        bs = [int(b) for b in bitstr]
        if len(bs) != len(S) or any(b not in (0, 1) for b in bs):
            raise Violation('support', api, f'bit string {bitstr} is not a 0/1 list of length {len(S)}')
        a = 0
        for b in bs:
            a = (a << 1) | b
        if p[a] <= RFLOOR / 10:
            raise Violation('support', api, f'outcome {bs} on S={S} has model probability {p[a]:.3g}')
        if scripted_pick is not None:
            supp = np.nonzero(p > RFLOOR)[0]  # the model's support: an outcome the SUT hides from the sampler shifts the pick
            exp = int(supp[scripted_pick % len(supp)])
            if a != exp:
                raise Violation('support', api, f'scheduler chose outcome index {exp} of S={S} but the bit string {bs} encodes {a}')
        if not (isinstance(post, np.ndarray) and post.shape == psi.shape):
            raise Violation('projection', api, f'post-measurement state has shape {getattr(post, "shape", None)}')
        if abs(np.linalg.norm(post) - 1) > TOL:
            raise Violation('projection', api, f'post-measurement state has norm {np.linalg.norm(post)}')
        ref = born.project(psi, S, a)
        if np.abs(post - ref).max() > TOL:
            raise Violation('projection', api, f'post-measurement state is not the projection onto outcome {bs} of S={S} (n={n}); max dev {np.abs(post - ref).max():.3g}')
        self.cover['pairs'].add(f'{n}:{"".join(map(str, S))}')
        self.cover['triples'].add(f'{n}:{"".join(map(str, S))}:{a}')
        self.cover['compl_runs'].add(str(min(complement_runs(n, S), 3)))
        if (p <= 1e-12).any():
            self.bump('zero_probability_outcomes_present')
        self.checked += 1
        self.bump('measurements_checked')
        return a

    # -------------------------------------------------------------- register mode
    def sut_measure(self, world, op, S, pick, seed, api='measure_quantum_vector'):
        psi = self.psi
        mq = self.nq.sim.state.measure_quantum_vector

        def mk_seed():
            return seams.ScriptedGenerator(seed=7, script=[pick], floor=RFLOOR) if pick is not None else int(seed)

        form = (pick if pick is not None else int(seed)) % 4
        if len(S) == 1 and form == 0:
            idx = int(S[0])
        elif form == 1:
            idx = tuple(np.int64(q) for q in S)
        else:  # (an ndarray index is not in the documented signature int|tuple[int]: numqi's hf_tuple_of_int turns it into a list; not claimed)
            idx = tuple(S)
        if (pick if pick is not None else int(seed)) % 3 == 0:
            psi = psi.copy()
            psi.setflags(write=False)  # a caller may hand in a read-only array; measurement must not need to write into it
        flt = op.get('fault')
        if flt:
            kind = flt['kind']
            self.bump(f'fault.{kind}.configured')
            world.cache_wipe()
            try:
                _, npts = self.inj.count(lambda: mq(psi.copy(), idx, mk_seed()))
            except Exception as e:
                raise Violation('unexpected_exception', api, f'{type(e).__name__}: {e} for S={S} of {self.n} qubits')
            world.cache_wipe()
            k = min(int(flt['frac'] * npts), max(npts - 1, 0))
            try:
                val, fired, exc = self.inj.inject(lambda: mq(psi, idx, mk_seed()), k, faults.EXC[kind])
            except Exception as e:
                if self.inj.fired_at is None:
                    raise Violation('unexpected_exception', api, f'{type(e).__name__}: {e}')
                val, fired, exc = None, True, e
            self.log.add('fault', kind, k, npts, bool(fired), str(self.inj.fired_at))
            if self.inj.fired_at is not None:
                self.cover.setdefault('fault_sites', set()).add(f'{self.inj.fired_at[0]}:{self.inj.fired_at[1]}')
            self.stats['max.injection_points_in_one_op'] = max(self.stats.get('max.injection_points_in_one_op', 0), int(npts))
            if fired:
                self.bump(f'fault.{kind}.fired')
                self.bump('probe.third_party_state_restored', seams.third_party_state_restore())
                if exc is not None:
                    return None
        else:
            try:
                val = mq(psi, idx, mk_seed())
            except Exception as e:
                raise Violation('unexpected_exception', api, f'{type(e).__name__}: {e} for S={S} of {self.n} qubits')
        return val

    def do_measure(self, world, op, S, pick, seed, expect_same=False):
        if self.psi is None:
            return
        S = sorted({q for q in S if q < self.n})
        if not S:
            return
        pre = self.psi.copy()
        if pick is not None and np.any(np.abs(born.marginals(pre, S) - RFLOOR) < 1e-3 * RFLOOR):
            self.bump('probe.floor_boundary_skip')
            return
        val = self.sut_measure(world, op, S, pick, seed)
        if val is None:
            self.shape.append('M')
            self.bump('measurements_faulted')
            if np.abs(self.psi - pre).max() > 0:
                raise Violation('after_fault', 'measure_quantum_vector', 'an interrupted measurement modified the caller state in place')
            return
        if not (isinstance(val, tuple) and len(val) == 3):
            raise Violation('born', 'measure_quantum_vector', f'expected (bitstr, prob, state), got {type(val).__name__}')
        bitstr, prob, post = val
        if not (isinstance(bitstr, (list, tuple, np.ndarray)) and isinstance(prob, np.ndarray) and isinstance(post, np.ndarray)):
            raise Violation('born', 'measure_quantum_vector', f'expected (list, ndarray, ndarray), got ({type(bitstr).__name__}, {type(prob).__name__}, {type(post).__name__})')
        if np.abs(self.psi - pre).max() > 0:
            raise Violation('projection', 'measure_quantum_vector', f'the caller-owned input state was modified in place by measuring S={S} (a second measurement of the same input sees a different state)')
        self.log.add('measure', S, [int(b) for b in bitstr], np.round(np.asarray(prob, dtype=np.float64), 9) + 0.0)
        a = self.check_measurement(pre, S, bitstr, prob, post, 'measure_quantum_vector', scripted_pick=pick, sut_prob_for_pick=prob)
        bs = [int(b) for b in bitstr]
        for q, b in zip(S, bs):
            if q in self.known and self.known[q] != b:
                raise Violation('nested', 'measure_quantum_vector', f'qubit {q} was measured as {self.known[q]} and, with no gate in between, now as {b}')
        if expect_same and self.last is not None and self.last[0] == S:
            if bs != self.last[1] or prob.max() < 1 - TOL or np.abs(post - self.last[2]).max() > TOL:
                raise Violation('repeat', 'measure_quantum_vector', f'measuring S={S} again gave {bs} (before: {self.last[1]}), max prob {prob.max()}, state change {np.abs(post - self.last[2]).max():.3g}')
            self.bump('repeat_checks')
        for q, b in zip(S, bs):
            self.known[q] = b
        self.last = (S, bs, post.copy())
        if isinstance(bitstr, list) and bitstr:
            bitstr.reverse()  # the caller owns the returned list and may edit it in place; later results must not see that
            bitstr[0] = 7
            self.bump('fault.caller_overwrites_result.configured')
            self.bump('fault.caller_overwrites_result.fired')
        self.hand_out(prob, 'measure_quantum_vector probabilities')
        self.hand_out(post, 'measure_quantum_vector post-measurement state')
        self.psi = np.asarray(post)
        self.shape.append('m')

    def step_register(self, world, op):
        k = op['op']
        if k == 'prepare':
            if 'n' in op:
                self.n = int(op['n'])  # a register of another width in the same process/run: exercises keyed caches
            self.psi = born.make_state(op['kind'], self.n, op['seed'])
            self.known, self.last = {}, None
            self.log.add('prepare', op['kind'], self.n)
            self.shape.append('p')
        elif k == 'gate':
            if self.psi is None:
                return
            q = [x for x in op['q']]
            if max(q) >= self.n or len(set(q)) != len(q):
                return
            self.psi = model_apply(self.psi, gate_spec(op))
            if self.psi.dtype != np.complex128:
                self.psi = self.psi.astype(np.complex128)
            for x in q:
                self.known.pop(x, None)
            self.last = None
            self.shape.append('g')
        elif k == 'measure':
            self.do_measure(world, op, op['S'], op.get('pick'), op.get('seed'))
        elif k == 'remeasure':
            if self.last is not None:
                self.do_measure(world, op, self.last[0], op['pick'], None, expect_same=True)
        elif k == 'reach':
            # "every outcome reachable by varying the seed": with the library's own sampler (integer seeds s0..s0+K-1) every
            # outcome of probability >= 0.1 must occur at least once (it is missed with probability 0.9^K = 2e-14 for K=300)
            if self.psi is None:
                return
            S = sorted({q for q in op['S'] if q < self.n})[:2]
            if not S:
                return
            p = born.marginals(self.psi, S)
            seen = set()
            mq = self.nq.sim.state.measure_quantum_vector
            pre = self.psi.copy()
            for j in range(int(op['K'])):
                try:
                    bs, prob, post = mq(self.psi, tuple(S), None if op.get('mode') == 'none' else int(op['seed0']) + j)
                except Exception as e:
                    raise Violation('unexpected_exception', 'measure_quantum_vector', f'{type(e).__name__}: {e} for S={S} seed={int(op["seed0"]) + j}')
                a = 0
                for b in bs:
                    a = (a << 1) | int(b)
                if a >= len(p) or p[a] <= RFLOOR / 10:
                    raise Violation('support', 'measure_quantum_vector', f'seed {int(op["seed0"]) + j}: outcome {list(bs)} on S={S} has model probability {p[a] if a < len(p) else None}')
                seen.add(a)
            if np.abs(self.psi - pre).max() > 0:
                raise Violation('projection', 'measure_quantum_vector', 'the caller-owned input state was modified in place')
            missing = [int(a) for a in np.nonzero(p >= 0.1)[0] if int(a) not in seen]
            if missing:
                raise Violation('support', 'measure_quantum_vector', f'outcomes {missing} of S={S} have probabilities {[round(float(p[a]), 3) for a in missing]} but were never sampled with seeds {op["seed0"]}..{int(op["seed0"]) + int(op["K"]) - 1}')
            self.bump('reachability_sweeps')
            self.log.add('reach', S, sorted(seen))
            self.shape.append('h')
        elif k == 'nested':
            if self.last is not None:
                S = sorted(set(self.last[0]) | {q for q in range(self.n) if (op['grow'] >> q) & 1})
                self.do_measure(world, op, S, op['pick'], None)
                self.bump('nested_measurements')

    # -------------------------------------------------------------- circuit mode
    def width(self):
        w = 0
        for d in self.desc:
            if d[0] == 'gate':
                w = max(w, max(d[1][2] + d[1][3]) + 1)
            elif d[0] == 'measure':
                w = max(w, max(d[1]) + 1)
            # classical-control gates do not count towards Circuit.num_qubit (kind 'custom')
        return w

    def step_circuit(self, world, op):
        k = op['op']
        nq = self.nq
        if k == 'c_new':
            if self.circ is not None:
                for x in self.desc:
                    if x[0] == 'measure' and x[2].bitstr is not None and not any(x[2] is y[0] for y in self.stash):
                        self.stash.append((x[2], [int(b) for b in x[2].bitstr], None if x[2].probability is None else np.array(x[2].probability, dtype=np.float64)))
            self.circ = nq.sim.Circuit(default_requires_grad=False)
            self.circ.register_custom_gate('classical_control_gate', ClassicalControl)
            self.circ.register_custom_gate('probe_gate', Probe)
            self.desc, self.mgates = [], []
            self.buffers = {}
            self.shape.append('n')
            return
        if self.circ is None:
            return
        c = self.circ
        if k == 'c_gate':
            q = list(op['q'])
            if max(q) >= self.n or len(set(q)) != len(q):
                return
            spec = gate_spec(op)
            kind, U, ctrl, tgt = spec
            g = op['g']
            try:
                if g in ('H', 'X', 'Z', 'S', 'T'):
                    getattr(c, g)(q[0])
                elif g == 'swap':
                    c.Swap(q[0], q[1])
                elif g == 'cnot':
                    c.cnot(q[0], q[1])
                elif g == 'cz':
                    c.cz(q[0], q[1])
                elif g == 'toffoli':
                    c.toffoli((q[0], q[1]), q[2])
                elif g == 'rx' and int(abs(op['theta']) * 1e6) % 2:
                    c.rx(q[0], op['theta'])  # a ParameterGate next to measure gates (conventions verified equal to the model's)
                elif g in ('u1', 'rx'):
                    c.single_qubit_gate(U, q[0])
                elif g == 'u2':
                    c.double_qubit_gate(U, q[0], q[1])
                elif g == 'cu':
                    c.controlled_single_qubit_gate(U, set(ctrl), tgt[0])
                elif g == 'cu2':
                    c.controlled_double_qubit_gate(U, set(ctrl), tuple(tgt))
            except Exception as e:
                raise Violation('unexpected_exception', f'Circuit.{g}', f'{type(e).__name__}: {e}')
            self.desc.append(('gate', spec))
            self.shape.append('g')
        elif k == 'c_measure':
            S = sorted({q for q in op['S'] if q < self.n})
            if not S:
                return
            seed = int(op['seed']) if 'seed' in op else seams.ScriptedGenerator(seed=len(self.mgates), floor=FLOOR)
            try:
                if op.get('direct'):
                    g = self.nq.sim.circuit.MeasureGate(tuple(S), seed=seed, name=f'm{len(self.mgates)}')
                    c.append_gate(g, g.index)
                else:
                    g = c.measure(tuple(S) if len(S) > 1 or len(self.mgates) % 2 else S[0], seed=seed)
            except Exception as e:
                raise Violation('unexpected_exception', 'Circuit.measure', f'{type(e).__name__}: {e}')
            self.mgates.append(g)
            self.desc.append(('measure', S, g, 'seed' not in op))
            self.shape.append('M')
        elif k == 'c_ctrl':
            if not self.mgates or op['q'][0] >= self.n:
                return
            m = op['m'] % len(self.mgates)
            gm = self.mgates[m]
            U = born.G[op['g']]
            try:
                cg = c.classical_control_gate(gm, op['bit'], U, (op['q'][0],))
            except Exception as e:
                raise Violation('unexpected_exception', 'Circuit.register_custom_gate', f'{type(e).__name__}: {e}')
            self.desc.append(('cc', gm, op['bit'], U, cg))
            self.shape.append('c')
        elif k == 'c_unitary':
            # a user inspects the unitary of the gates added so far (only possible while the circuit has no measure gate yet) and
            # goes on building: nothing cached by that call may survive the later addition of measure / custom gates
            if self.desc and all(x[0] == 'gate' for x in self.desc):
                try:
                    c.to_unitary()
                except Exception as e:
                    raise Violation('unexpected_exception', 'Circuit.to_unitary', f'{type(e).__name__}: {e}')
                self.bump('to_unitary_before_measure_gates')
                self.shape.append('u')
        elif k == 'c_probe':
            try:
                c.probe_gate() if hasattr(c, 'probe_gate') else None
            except Exception as e:
                raise Violation('unexpected_exception', 'Circuit.register_custom_gate', f'{type(e).__name__}: {e}')
            if hasattr(c, 'probe_gate'):
                self.desc.append(('probe',))
                self.shape.append('b')
        elif k == 'c_shift':
            d = op['delta']
            w = self.width()
            if w == 0:
                return
            lo = min([min(x[1][2] + x[1][3]) for x in self.desc if x[0] == 'gate'] + [min(x[1]) for x in self.desc if x[0] == 'measure']
                     + [x[4].index[0] for x in self.desc if x[0] == 'cc'])
            hi = max([w - 1] + [x[4].index[0] for x in self.desc if x[0] == 'cc'])
            if lo + d < 0 or hi + d > 5:
                return
            ids = [id(x[2]) for x in self.desc if x[0] == 'measure']
            shared = len(ids) != len(set(ids))
            try:
                c.shift_qubit_index_(d)
            except AssertionError as e:
                if not shared:
                    raise Violation('unexpected_exception', 'Circuit.shift_qubit_index_', f'{type(e).__name__}: {e}')
                # a MeasureGate shared through extend_circuit: numqi refuses the shift with an assertion half-way through its loop.
                # A refusal is legitimate (the operation may fail, it may never measure the wrong qubits); the half-shifted
                # circuit is dropped by its user. An *accepted* shift must move every occurrence by delta (checked below and by
                # every later run).
                self.bump('shift_shared_refused')
                self.log.add('shift_refused', d)
                self.circ, self.desc, self.mgates = None, [], []
                self.shape.append('r')
                return
            except Exception as e:
                raise Violation('unexpected_exception', 'Circuit.shift_qubit_index_', f'{type(e).__name__}: {e}')
            if shared:
                self.bump('shift_shared_accepted')
            nd = []
            seen_cc = set()
            for x in self.desc:
                if x[0] == 'gate':
                    kind, U, ctrl, tgt = x[1]
                    nd.append(('gate', (kind, U, [q + d for q in ctrl], [q + d for q in tgt])))
                elif x[0] == 'measure':
                    nd.append(('measure', [q + d for q in x[1]], x[2], x[3]))
                elif x[0] == 'probe':
                    nd.append(x)
                else:
                    if id(x[4]) not in seen_cc:
                        seen_cc.add(id(x[4]))
                        x[4].index = tuple(q + d for q in x[4].index)  # custom gates are user code: the user shifts them
                    nd.append(x)
            self.desc = nd
            self.bump('shifts')
            self.log.add('shift', d)
            self.shape.append('s')
        elif k == 'c_extend':
            # a sub-circuit (rounds of a protocol) appended `times` times with Circuit.extend_circuit: gate objects are shared
            main_c, main_desc, main_m = self.circ, self.desc, self.mgates
            sub = nq.sim.Circuit(default_requires_grad=False)
            sub.register_custom_gate('classical_control_gate', ClassicalControl)
            sub.register_custom_gate('probe_gate', Probe)
            self.circ, self.desc = sub, []
            try:
                for o in op['body']:
                    if o['op'] in ('c_gate', 'c_measure', 'c_ctrl', 'c_probe'):
                        self.step_circuit(world, o)
            finally:
                sub_desc = self.desc
                self.circ, self.desc = main_c, main_desc
            if not sub_desc:
                return
            try:
                for _ in range(int(op['times'])):
                    main_c.extend_circuit(sub)
            except Exception as e:
                raise Violation('unexpected_exception', 'Circuit.extend_circuit', f'{type(e).__name__}: {e}')
            for _ in range(int(op['times'])):
                self.desc.extend(sub_desc)
            self.bump('extends')
            self.shape.append('e')
        elif k == 'c_run':
            self.do_run(world, op)

    def fill_scripts(self, picks):
        """one scheduler pick per *execution* of a scripted measure gate, in circuit order (a gate object shared through
        extend_circuit is executed several times per run and pops its picks in that order)"""
        gates = {}
        j = 0
        for x in self.desc:
            if x[0] == 'measure' and x[3]:
                gates.setdefault(id(x[2]), (x[2], []))[1].append(picks[j % len(picks)])
                j += 1
        for g, lst in gates.values():
            g.np_rng.script[:] = lst

    def do_run(self, world, op):
        c = self.circ
        if not any(x[0] in ('gate', 'measure') for x in self.desc):
            return
        w = self.width()
        try:
            nq_sut = c.num_qubit
        except Exception as e:
            raise Violation('unexpected_exception', 'Circuit.num_qubit', f'{type(e).__name__}: {e}')
        if nq_sut != w:
            raise Violation('bookkeeping', 'Circuit.num_qubit', f'Circuit.num_qubit={nq_sut} but the gates and measure gates of the circuit reach qubit {w - 1}: a register of num_qubit qubits cannot hold the measured qubits')
        w = max([w] + [x[4].index[0] + 1 for x in self.desc if x[0] == 'cc'])
        w = max(w, min(6, int(op.get('reg', 0))))  # a circuit may act on the low qubits of a wider register (same register size across shifts)
        # circuits always get a complex128 input: numqi's apply_control_n_gate writes into a copy of the input and silently drops the
        # imaginary part for float64 states (a C03-type input-dtype issue, outside C11; see DESIGN §5.4)
        psi0 = born.make_state(op['prep']['kind'], w, op['prep']['seed']).astype(np.complex128)
        if op.get('buffer') and not op.get('strided'):
            # the caller keeps one preallocated array per register width and refills it before every run
            buf = self.buffers.get(psi0.shape[0])
            if buf is None:
                buf = self.buffers[psi0.shape[0]] = np.zeros(psi0.shape[0], dtype=np.complex128)
            buf[:] = psi0
            psi0 = buf
        if op.get('strided'):
            big = np.zeros(2 * psi0.shape[0], dtype=np.complex128)
            big[1::2] = 0.123  # garbage between the amplitudes: a non-contiguous view handed in by the caller
            big[::2] = psi0
            psi0 = big[::2]
        psi0_keep = psi0.copy()
        picks = list(op['picks'])
        self.fill_scripts(picks)

        def run(q):
            if op.get('via') == 'torch':
                import torch
                wr = self.nq.sim.CircuitTorchWrapper(c)
                return wr(torch.from_numpy(q.copy())).detach().numpy()
            return c.apply_state(q)
        flt = op.get('fault')
        if flt:
            kind = flt['kind']
            self.bump(f'fault.{kind}.configured')
            # count-run on the same circuit with the same scripted picks, then restore the scripts
            world.cache_wipe()
            try:
                _, npts = self.inj.count(lambda: run(psi0))
            except Exception as e:
                raise Violation('unexpected_exception', 'Circuit.apply_state', f'{type(e).__name__}: {e}')
            self.fill_scripts(picks)
            world.cache_wipe()
            kk = min(int(flt['frac'] * npts), max(npts - 1, 0))
            try:
                out, fired, exc = self.inj.inject(lambda: run(psi0), kk, faults.EXC[kind])
            except Exception as e:
                if self.inj.fired_at is None:
                    raise Violation('unexpected_exception', 'Circuit.apply_state', f'{type(e).__name__}: {e}')
                out, fired, exc = None, True, e
            self.log.add('fault', kind, kk, npts, bool(fired), str(self.inj.fired_at))
            if self.inj.fired_at is not None:
                self.cover.setdefault('fault_sites', set()).add(f'{self.inj.fired_at[0]}:{self.inj.fired_at[1]}')
            self.stats['max.injection_points_in_one_op'] = max(self.stats.get('max.injection_points_in_one_op', 0), int(npts))
            if fired:
                self.bump(f'fault.{kind}.fired')
                self.bump('probe.third_party_state_restored', seams.third_party_state_restore())
                if exc is not None:
                    self.shape.append('R')
                    self.bump('runs_faulted')
                    # after a run that raised, a gate's record may be the old one or the new one, but it must be ONE record:
                    # the recorded outcome has non-zero recorded probability
                    for x in self.desc:
                        if x[0] == 'measure' and x[2].bitstr is not None and x[2].probability is not None:
                            g = x[2]
                            pr = np.asarray(g.probability)
                            a = 0
                            for b in g.bitstr:
                                a = (a << 1) | int(b)
                            if pr.ndim != 1 or a >= pr.shape[0] or not (pr[a] > 0):
                                raise Violation('after_fault', 'MeasureGate', f'after an interrupted run the measure gate on {list(g.index)} holds bit string {list(g.bitstr)} together with probabilities {np.round(pr, 6).tolist()}: the recorded outcome has no recorded probability (a torn record)')
                    return
        else:
            try:
                out = run(psi0)
            except Exception as e:
                raise Violation('unexpected_exception', 'Circuit.apply_state', f'{type(e).__name__}: {e}')
        if np.abs(psi0 - psi0_keep).max() > 0:
            raise Violation('projection', 'Circuit.apply_state', 'the caller-owned input state was modified in place by the run (a later use of the same input sees a different state)')
        # replay the run in the model. Scripted measure gates: the model *predicts* the outcome (scheduler pick applied to the
        # model's own marginals); integer-seeded ones (numpy picks): the outcome is read from the gate's record, which is only
        # possible when the gate object occurs once in the circuit.
        psi = psi0_keep
        nm = 0
        outcomes = {}
        last_pred = {}
        occ = {}
        for x in self.desc:
            if x[0] == 'measure':
                occ[id(x[2])] = occ.get(id(x[2]), 0) + 1
        j = 0
        for x in self.desc:
            if x[0] == 'gate':
                psi = model_apply(psi, x[1])
            elif x[0] == 'measure':
                S, g, is_scripted = x[1], x[2], x[3]
                p = born.marginals(psi, S)
                if is_scripted:
                    pick = picks[j % len(picks)]
                    j += 1
                    if np.any(np.abs(p - FLOOR) < 1e-3 * FLOOR):
                        self.bump('probe.floor_boundary_skip')
                        return
                    supp = np.nonzero(p > FLOOR)[0]
                    a = int(supp[pick % len(supp)])
                else:
                    if occ[id(g)] != 1:
                        self.bump('probe.shared_int_seeded_gate_skip')
                        return
                    if g.bitstr is None:
                        raise Violation('bookkeeping', 'MeasureGate', f'measure gate on {S} has no recorded bit string after a run')
                    a = 0
                    for bb in g.bitstr:
                        a = (a << 1) | int(bb)
                    if len(g.bitstr) != len(S) or a >= len(p) or p[a] <= FLOOR / 10:
                        raise Violation('bookkeeping', 'MeasureGate', f'recorded outcome {g.bitstr} on S={S} has probability {p[a] if a < len(p) else None} at that point of the circuit')
                bs = [(a >> (len(S) - 1 - t)) & 1 for t in range(len(S))]
                outcomes[id(g)] = bs
                last_pred[id(g)] = (S, g, p, bs, a)
                psi = born.project(psi, S, a)
                nm += 1
                n = psi.shape[0].bit_length() - 1
                self.cover['pairs'].add(f'{n}:{"".join(map(str, S))}')
                self.cover['triples'].add(f'{n}:{"".join(map(str, S))}:{a}')
                self.cover['compl_runs'].add(str(min(complement_runs(n, S), 3)))
            elif x[0] == 'probe':
                pass
            else:
                _, gm, bit, U, cg = x
                bs = outcomes.get(id(gm))
                if bs is None:
                    raise Violation('bookkeeping', 'MeasureGate', 'classical control before its measurement')
                if bs[bit % len(bs)] == 1:
                    psi = born.apply_gate(psi, U, list(cg.index))
        # every gate's record must describe its own (last) execution in this run, at its point of the circuit
        for S, g, p, bs, a in last_pred.values():
            if g.bitstr is None or g.probability is None:
                raise Violation('bookkeeping', 'MeasureGate', f'measure gate on {S} has no recorded bit string / probability after a run')
            if tuple(g.index) != tuple(S):
                raise Violation('bookkeeping', 'MeasureGate', f'measure gate index {g.index} != {S} (after shift?)')
            prob = np.asarray(g.probability)
            if prob.shape != p.shape or prob.min() < 0 or abs(prob.sum() - 1) > TOL or np.abs(prob - p).max() > TOL:
                raise Violation('bookkeeping', 'MeasureGate', f'recorded probabilities {np.round(prob, 6).tolist()} of the measure gate on {S} are not the Born marginals {np.round(p, 6).tolist()} of the state at that point of the circuit')
            if [int(b) for b in g.bitstr] != bs:
                raise Violation('bookkeeping', 'MeasureGate', f'recorded bit string {list(g.bitstr)} of the measure gate on {S} is not the outcome {bs} obtained at that point of the circuit')
            self.checked += 1
            self.bump('measurements_checked')
        if not isinstance(out, np.ndarray):
            raise Violation('bookkeeping', 'Circuit.apply_state', f'apply_state returned {type(out).__name__}, not an ndarray')
        if out.shape != psi.shape or np.abs(out - psi).max() > TOL:
            raise Violation('bookkeeping', 'Circuit.apply_state', f'final state differs from the model run with the outcomes obtained at each measure gate (max dev {np.abs(out - psi).max() if out.shape == psi.shape else "shape"}): classical control / projection did not use the measurement made at that point of the circuit')
        self.log.add('run', w, [outcomes[id(x[2])] for x in self.desc if x[0] == 'measure'], np.round(out, 9) + 0.0)
        self.bump('circuit_runs')
        self.hand_out(out, 'Circuit.apply_state result')
        # records of another circuit object of this process (stashed earlier) must not change when this one runs
        for (g, bs0, pr0) in self.stash:
            if list(g.bitstr or []) != bs0 or (pr0 is not None and (g.probability is None or np.abs(np.asarray(g.probability) - pr0).max() > 0)):
                raise Violation('bookkeeping', 'MeasureGate', f'running one circuit changed the record of a measure gate on {list(g.index)} that belongs to another circuit')
        if self.stash:
            self.bump('cross_circuit_record_checks')
        if nm >= 2:
            self.bump('circuit_runs_with_2plus_measures')
        if any(v > 1 for v in occ.values()):
            self.bump('circuit_runs_with_shared_measure_gate')
        self.shape.append('r')

    def hand_out(self, arr, what):
        if isinstance(arr, np.ndarray):
            self.handed.append((arr, arr.copy(), what))
            if len(self.handed) > 40:
                del self.handed[:10]

    def check_handed_out(self):
        for obj, cp, what in self.handed:
            if obj.shape != cp.shape or not np.array_equal(obj, cp):
                raise Violation('result_stability', what, f'an array returned earlier ({what}) was rewritten in place by a later operation')
        if self.handed:
            self.bump('handed_out_results_rechecked', len(self.handed))

    def step(self, world, i, op):
        self._step(world, i, op)
        self.check_handed_out()

    def _step(self, world, i, op):
        k = op['op']
        if k == 'wipe':
            world.cache_wipe()
            self.bump('fault.cache_wipe.configured')
            self.bump('fault.cache_wipe.fired')
            self.shape.append('w')
        elif k.startswith('c_'):
            self.step_circuit(world, op)
        else:
            self.step_register(world, op)


def execute(plan, keep_events=False):
    cfg = plan['config']
    sim = Sim(plan, keep_events)
    violation = None
    with seams.World(random.Random(cfg.get('entropy', 0)), lru_maxsize=cfg.get('lru')) as world:
        sim.log.add('start', cfg.get('n'), cfg.get('lru'))
        i = -1
        try:
            for i, op in enumerate(plan['ops']):
                sim.step(world, i, op)
        except Violation as v:
            violation = {'oracle': v.oracle, 'api': v.api, 'op_index': i, 'detail': v.detail, 'op': plan['ops'][i]}
            sim.log.add('violation', v.oracle, v.api, i)
        except Exception as e:
            # safety net: an exception raised *inside numqi code* that escaped the per-call wrappers is the SUT's, not the harness's
            import traceback
            tb = traceback.extract_tb(e.__traceback__)
            if not tb or '/numqi/' not in tb[-1].filename:
                raise
            violation = {'oracle': 'unexpected_exception', 'api': tb[-1].name, 'op_index': i, 'detail': f'{type(e).__name__}: {e} (raised in {tb[-1].filename.split("/numqi/")[-1]}:{tb[-1].lineno})', 'op': plan['ops'][i]}
            sim.log.add('violation', 'unexpected_exception', tb[-1].name, i)
    sim.bump('ops', len(plan['ops']))
    res = {
        'digest': sim.log.hexdigest(),
        'violation': violation,
        'stats': sim.stats,
        'cover': {k: sorted(v) for k, v in sim.cover.items() if v},
        'shape': ''.join(sim.shape)[:40],
        'nontrivial': sim.checked >= 1,
        'plan_digest': trace.digest(repr(plan['ops'])),
    }
    if keep_events:
        res['events'] = sim.log.events
    return res


def evidence_extra(stats, cover, results):
    return {
        'state_coverage': {
            'n_subset_pairs_measured': len(cover.get('pairs', ())), 'of_pairs': 120,
            'n_subset_outcome_triples_forced': len(cover.get('triples', ())),
            'complement_run_counts_hit': sorted(cover.get('compl_runs', ())),
            'measure': '(n, S) pairs and (n, S, outcome) triples whose measurement was fully checked against the Born model',
        },
        'simulated_time': {'unit': 'logical steps (C11 has no clock)', 'ops_total': stats.get('ops', 0)},
    }
