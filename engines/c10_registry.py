"""C10 registry: every public function of numqi.random in every optional-argument branch, plus the other seed-taking
APIs (DESIGN §4, Appendix A). Each entry has
  gen(r)  -> JSON-able admissible arguments (r: random.Random)
  call(nq, args, seed) -> value          (seed None = unseeded)
  member(nq, args, value) -> None | reason
Argument generators are restricted to admissible combinations (found by probing the unchanged tree; inadmissible ones
fail by construction or by an assertion in numqi)."""
import numpy as np

from models import membership as mb
from models import born

R = {}


def reg(name, gen, call, member=None, weight=1.0, heavy=False, solver=False, branch=None, fresh_result=True):
    R[name] = dict(name=name, gen=gen, call=call, member=member, weight=weight, heavy=heavy, solver=solver, branch=branch or (lambda a: ''), fresh_result=fresh_result)


def _tup(x):
    return tuple(x) if isinstance(x, list) else x


# ------------------------------------------------------------------------------------------------ numqi.random
reg('rand_haar_state',
    lambda r: {'dim': r.randint(1, 6) if r.random() < 0.8 else r.choice([17, 64, 200, 2 ** 21 + 3, 2 ** 22 + 1, 2 ** 22 + 1]), 'tag_complex': r.random() < 0.6},
    lambda nq, a, s: nq.random.rand_haar_state(a['dim'], tag_complex=a['tag_complex'], seed=s),
    lambda nq, a, v: mb.haar_state(a, v), branch=lambda a: f"complex={a['tag_complex']}")

reg('rand_haar_unitary',
    lambda r: {'dim': r.randint(1, 5) if r.random() < 0.85 else r.choice([9, 16, 33])},
    lambda nq, a, s: nq.random.rand_haar_unitary(a['dim'], seed=s),
    lambda nq, a, v: mb.haar_unitary(a, v))

reg('rand_special_orthogonal_matrix',
    lambda r: {'dim': r.randint(2, 5), 'batch_size': r.choice([None, None, 1, 3]), 'tag_complex': r.random() < 0.5},
    lambda nq, a, s: nq.random.rand_special_orthogonal_matrix(a['dim'], batch_size=a['batch_size'], tag_complex=a['tag_complex'], seed=s),
    lambda nq, a, v: mb.special_orthogonal(a, v), branch=lambda a: f"batch={a['batch_size'] is not None},complex={a['tag_complex']}")


def _g_dm(r):
    d = r.randint(2, 5) if r.random() < 0.9 else r.choice([8, 16])
    return {'dim': d, 'k': r.choice([None] + list(range(1, d + 1))), 'kind': r.choice(['haar', 'bures'])}


reg('rand_density_matrix', _g_dm,
    lambda nq, a, s: nq.random.rand_density_matrix(a['dim'], k=a['k'], kind=a['kind'], seed=s),
    lambda nq, a, v: mb.density_matrix(a, v), weight=2, branch=lambda a: f"k={'None' if a['k'] is None else 'int'},{a['kind']}")


def _g_kraus(r):
    while True:
        a = {'num_term': r.randint(1, 4), 'dim_in': r.randint(1, 4), 'dim_out': r.randint(1, 4), 'tag_complex': r.random() < 0.6}
        if a['num_term'] * a['dim_out'] >= a['dim_in']:
            return a


reg('rand_kraus_op', _g_kraus,
    lambda nq, a, s: nq.random.rand_kraus_op(a['num_term'], a['dim_in'], a['dim_out'], tag_complex=a['tag_complex'], seed=s),
    lambda nq, a, v: mb.kraus_op(a, v), branch=lambda a: f"complex={a['tag_complex']}")


def _g_choi(r):
    di, do = r.randint(1, 3), r.randint(1, 3)
    rank = None
    if r.random() < 0.6:
        lo = -(-di // do)
        rank = r.randint(lo, di * do)
    return {'dim_in': di, 'dim_out': do, 'rank': rank}


reg('rand_choi_op', _g_choi,
    lambda nq, a, s: nq.random.rand_choi_op(a['dim_in'], a['dim_out'], rank=a['rank'], seed=s),
    lambda nq, a, v: mb.choi_op(a, v), branch=lambda a: f"rank={'None' if a['rank'] is None else 'int'}")

reg('rand_povm',
    lambda r: {'dim': r.randint(1, 4), 'num_term': r.randint(1, 5) if r.random() < 0.9 else r.choice([64, 129, 257])},
    lambda nq, a, s: nq.random.rand_povm(a['dim'], a['num_term'], seed=s),
    lambda nq, a, v: mb.povm(a, v))


def _g_bip(r):
    dA = r.randint(1, 4)
    dB = r.choice([None, r.randint(1, 4)])
    m = min(dA, dA if dB is None else dB)
    return {'dimA': dA, 'dimB': dB, 'k': r.choice([None, None] + list(range(1, m + 1))), 'return_dm': r.random() < 0.4}


reg('rand_bipartite_state', _g_bip,
    lambda nq, a, s: nq.random.rand_bipartite_state(a['dimA'], dimB=a['dimB'], k=a['k'], seed=s, return_dm=a['return_dm']),
    lambda nq, a, v: mb.bipartite_state(a, v), weight=2,
    branch=lambda a: f"dimB={'None' if a['dimB'] is None else 'int'},k={'None' if a['k'] is None else 'int'},dm={a['return_dm']}")

reg('rand_separable_dm',
    lambda r: {'dimA': r.randint(1, 3), 'dimB': r.choice([None, 1, 2, 3]), 'k': r.randint(1, 6) if r.random() < 0.8 else r.choice([17, 40, 90, 128, 129, 257]), 'pure_term': r.random() < 0.5},
    lambda nq, a, s: nq.random.rand_separable_dm(a['dimA'], dimB=a['dimB'], k=a['k'], seed=s, pure_term=a['pure_term']),
    lambda nq, a, v: mb.separable_dm(a, v), weight=2, branch=lambda a: f"dimB={'None' if a['dimB'] is None else 'int'},pure={a['pure_term']}")


def _g_herm(r):
    eig = None
    if r.random() < 0.5:
        lo = round(r.uniform(-3, 2), 3)
        eig = [lo, round(lo + r.uniform(0.1, 3), 3)]
    return {'d': r.randint(2, 4), 'eig': eig, 'tag_complex': r.random() < 0.5}


reg('rand_hermitian_matrix', _g_herm,
    lambda nq, a, s: nq.random.rand_hermitian_matrix(a['d'], eig=_tup(a['eig']), tag_complex=a['tag_complex'], seed=s),
    lambda nq, a, v: mb.hermitian_matrix(a, v), weight=2, branch=lambda a: f"eig={'None' if a['eig'] is None else 'range'},complex={a['tag_complex']}")

reg('rand_channel_matrix_space',
    lambda r: {'dim_in': r.randint(2, 4), 'num_term': r.randint(1, 4)},
    lambda nq, a, s: nq.random.rand_channel_matrix_space(a['dim_in'], a['num_term'], seed=s),
    lambda nq, a, v: mb.channel_matrix_space(a, v))


def _g_qcms(r):
    d = r.randint(2, 3)
    if r.random() < 0.5:
        return {'dim_in': d, 'num_hermite': r.randint(1, d * d)}
    n1 = d * (d - 1) // 2
    ns = r.randint(1, d * d - n1)
    na = 0 if d < 3 else r.randint(0, n1)
    return {'dim_in': d, 'num_hermite': [ns, na]}


reg('rand_quantum_channel_matrix_subspace', _g_qcms,
    lambda nq, a, s: nq.random.rand_quantum_channel_matrix_subspace(a['dim_in'], _tup(a['num_hermite']), seed=s),
    lambda nq, a, v: mb.channel_matrix_subspace(a, v), branch=lambda a: 'real' if isinstance(a['num_hermite'], list) else 'int')


def _g_abk(r):
    k = r.randint(1, 3)
    dB = r.randint(1, 3 if k < 3 else 2)
    return {'dimA': r.randint(1, 3), 'dimB': dB, 'kext': k}


reg('rand_ABk_density_matrix', _g_abk,
    lambda nq, a, s: nq.random.rand_ABk_density_matrix(a['dimA'], a['dimB'], a['kext'], seed=s),
    lambda nq, a, v: mb.abk_density_matrix(a, v), branch=lambda a: f"kext={'1' if a['kext'] == 1 else '>=2'}")

reg('rand_reducible_matrix_subspace',
    lambda r: {'num_matrix': r.randint(1, 3), 'partition': r.choice([[1, 1], [1, 2], [2, 2], [1, 1, 2], [2, 3], [3, 1, 1]]), 'return_unitary': r.random() < 0.5},
    lambda nq, a, s: nq.random.rand_reducible_matrix_subspace(a['num_matrix'], a['partition'], return_unitary=a['return_unitary'], seed=s),
    lambda nq, a, v: mb.reducible_matrix_subspace(a, v), branch=lambda a: f"unitary={a['return_unitary']}")

reg('rand_symmetric_inner_product',
    lambda r: {'N0': r.randint(2, 4)},
    lambda nq, a, s: nq.random.rand_symmetric_inner_product(a['N0'], seed=s),
    lambda nq, a, v: mb.symmetric_inner_product(a, v))

reg('rand_orthonormal_matrix_basis',
    lambda r: {'num_orthonormal': r.randint(2, 3), 'dim_qudit': r.randint(2, 3), 'num_qudit': r.choice([1, 1, 2]), 'num_sample': r.choice([None, 1, 2]), 'with_I': r.random() < 0.5},
    lambda nq, a, s: nq.random.rand_orthonormal_matrix_basis(a['num_orthonormal'], a['dim_qudit'], num_qudit=a['num_qudit'], num_sample=a['num_sample'], with_I=a['with_I'], seed=s),
    lambda nq, a, v: mb.orthonormal_matrix_basis(a, v), branch=lambda a: f"sample={'None' if a['num_sample'] is None else 'int'},I={a['with_I']},nq={a['num_qudit']}")

reg('rand_adjacent_matrix',
    lambda r: {'dim': r.randint(2, 6) if r.random() < 0.85 else r.choice([17, 40, 64])},
    lambda nq, a, s: nq.random.rand_adjacent_matrix(a['dim'], seed=s),
    lambda nq, a, v: mb.adjacent_matrix(a, v))


def _g_size(r):
    return r.choice([None, r.randint(1, 4), [r.randint(1, 3), r.randint(1, 3)], []]) if r.random() < 0.9 else r.choice([129, 1025, [3, 129]])


def _size_branch(a):
    s = a['size']
    return 'None' if s is None else ('int' if isinstance(s, int) else ('()' if len(s) == 0 else 'tuple'))


reg('rand_n_sphere',
    lambda r: {'dim': r.randint(1, 4) if r.random() < 0.85 else r.choice([33, 300]), 'size': _g_size(r)},
    lambda nq, a, s: nq.random.rand_n_sphere(a['dim'], size=_tup(a['size']), seed=s),
    lambda nq, a, v: mb.n_sphere(a, v), branch=_size_branch)

reg('rand_n_ball',
    lambda r: {'dim': r.randint(1, 4) if r.random() < 0.85 else r.choice([33, 300]), 'size': _g_size(r)},
    lambda nq, a, s: nq.random.rand_n_ball(a['dim'], size=_tup(a['size']), seed=s),
    lambda nq, a, v: mb.n_ball(a, v), branch=_size_branch)


def _g_f2(r):
    if r.random() < 0.5:  # small sizes with flags: the rejection loop actually runs (P(reject) = 1/4 .. 1/2)
        nz, no = r.choice([(True, False), (False, True), (True, True)])
        size = [r.choice([1, 2, 2, 3])] if r.random() < 0.8 else [1, 2]
        if nz and no and int(np.prod(size)) <= 1:
            size = [2]
        return {'size': size, 'not_zero': nz, 'not_one': no}
    size = [r.randint(1, 4) for _ in range(r.randint(1, 3))] if r.random() < 0.85 else [r.choice([33, 70]), r.choice([2, 40])]
    nz, no = r.random() < 0.4, r.random() < 0.4
    if nz and no and int(np.prod(size)) <= 1:
        size = [2]
    return {'size': size, 'not_zero': nz, 'not_one': no}


reg('rand_F2', _g_f2,
    lambda nq, a, s: nq.random.rand_F2(*a['size'], not_zero=a['not_zero'], not_one=a['not_one'], seed=s),
    lambda nq, a, v: mb.f2(a, v), weight=2, branch=lambda a: f"nz={a['not_zero']},no={a['not_one']}")

def _c_f2_forced(nq, a, s):
    from simkit import seams
    # the generator object is a documented form of `seed`; the scheduler forces `m` rejected draws first (each has positive probability)
    g = seams.ForcedBitsGenerator(seed=0 if s is None else s, m=a['m'], value=a['value'])
    return nq.random.rand_F2(*a['size'], not_zero=a['not_zero'], not_one=a['not_one'], seed=g)


def _g_f2_forced(r):
    nz, no = r.choice([(True, False), (False, True), (True, True)])
    size = r.choice([[1], [2], [3], [1, 2], [2, 2]])
    if nz and no and int(np.prod(size)) <= 1:
        size = [2]
    value = 0 if (nz and not no) else (1 if (no and not nz) else r.choice([0, 1]))
    return {'size': size, 'not_zero': nz, 'not_one': no, 'm': r.choice([0, 1, 3, 8, 19, 20, 21, 40, 64, 150]), 'value': value}


reg('rand_F2[forced_rejections]', _g_f2_forced, _c_f2_forced, lambda nq, a, v: mb.f2(a, v), weight=1.5, branch=lambda a: f"m={'0' if a['m'] == 0 else ('<=20' if a['m'] <= 20 else '>20')}")

reg('rand_SpF2',
    lambda r: {'n': r.randint(1, 3) if r.random() < 0.8 else r.choice([5, 8, 20, 33, 40, 64]), 'return_kind': r.choice(['matrix', 'int_tuple', 'int_tuple-matrix'])},
    lambda nq, a, s: nq.random.rand_SpF2(a['n'], return_kind=a['return_kind'], seed=s),
    lambda nq, a, v: mb.spf2(a, v, nq), weight=2, branch=lambda a: a['return_kind'])

reg('rand_Clifford_group',
    lambda r: {'n': r.randint(1, 3) if r.random() < 0.8 else r.choice([5, 8, 20, 33, 40, 64])},
    lambda nq, a, s: nq.random.rand_Clifford_group(a['n'], seed=s),
    lambda nq, a, v: mb.clifford_group(a, v), weight=2)

reg('rand_pauli',
    lambda r: {'n': r.randint(1, 4) if r.random() < 0.85 else r.choice([7, 10]), 'is_hermitian': r.choice([None, True, False])},
    lambda nq, a, s: nq.random.rand_pauli(a['n'], is_hermitian=a['is_hermitian'], seed=s),
    lambda nq, a, v: mb.pauli(a, v), branch=lambda a: f"herm={a['is_hermitian']}")


def _c_get_numpy_rng(nq, a, s):
    g = nq.random.get_numpy_rng(s)
    out = [g.normal(size=a['n'])]
    if a['spawn']:
        out += [child.integers(0, 2 ** 32, size=2) for child in g.spawn(a['spawn'])]  # what multi-worker code does with a seeded generator
    out.append(g.uniform(size=2))
    return out


reg('get_numpy_rng',
    lambda r: {'n': r.randint(1, 5), 'spawn': r.choice([0, 1, 2, 3])},
    _c_get_numpy_rng,
    lambda nq, a, v: None if (isinstance(v, list) and v[0].shape == (a['n'],)) else 'shape', branch=lambda a: f"spawn={a['spawn'] > 0}")

reg('get_random_rng',
    lambda r: {'n': r.randint(1, 5)},
    lambda nq, a, s: [nq.random.get_random_rng(s).getrandbits(200) for _ in range(a['n'])][-1],
    None)

# ------------------------------------------------------------------------------------------------ other seeded APIs (light)
def _c_measure(nq, a, s):
    psi = born.make_state(a['kind'], a['n'], a['state_seed'])
    out = []
    for j, S in enumerate(a['subsets']):
        bs, prob, psi = nq.sim.state.measure_quantum_vector(psi, tuple(S), seed=(None if s is None else s + j))
        out.append(([int(b) for b in bs], prob))
    return out, psi


def _g_measure(r):
    n = r.randint(1, 5)
    subs = []
    for _ in range(r.randint(1, 3)):
        m = r.randrange(1, 2 ** n)
        subs.append([q for q in range(n) if (m >> q) & 1])
    return {'kind': r.choice(['haar', 'product', 'ghz', 'w', 'sparse']), 'n': n, 'state_seed': r.getrandbits(32), 'subsets': subs}


reg('measure_quantum_vector', _g_measure, _c_measure, None, weight=2)


def _c_circuit_measure(nq, a, s):
    c = nq.sim.Circuit()
    n = a['n']
    for q in range(n):
        c.H(q)
    for q in range(n - 1):
        c.cnot(q, q + 1)
    gates = []
    for j, S in enumerate(a['subsets']):
        gates.append(c.measure(tuple(S), seed=(None if s is None else s + j)))
        c.H(S[0])
    out = []
    width = n
    for k in range(a['runs']):
        if a.get('shift') and k == a.get('shift_before_run', 0):
            c.shift_qubit_index_(a['shift'])  # embedding a sub-circuit into a wider register must keep the seeded outcome stream
            width = n + a['shift']
        q1 = c.apply_state(nq.sim.state.new_base(width))
        # the gate objects of the circuit as it is now (a shift may legitimately replace them)
        cur = [g for g, _ in c.gate_index_list if getattr(g, 'kind', None) == 'measure']
        out.append(([[int(b) for b in g.bitstr] for g in cur], q1))
    return out


def _g_circuit_measure(r):
    n = r.randint(1, 4)
    subs = []
    for _ in range(r.randint(1, 3)):
        m = r.randrange(1, 2 ** n)
        subs.append([q for q in range(n) if (m >> q) & 1])
    runs = r.randint(1, 4)
    a = {'n': n, 'subsets': subs, 'runs': runs}
    if r.random() < 0.4:
        a['shift'] = r.choice([1, 2])
        a['shift_before_run'] = r.randrange(runs)
    return a


reg('Circuit.measure', _g_circuit_measure, _c_circuit_measure, None, weight=2.5, branch=lambda a: f"shift={bool(a.get('shift'))}")


def _c_clifford(nq, a, s):
    c = nq.sim.CliffordCircuit(seed=s)
    for kind, q in a['gates']:
        if kind == 1:
            c.random_one_qubit_gate(q[0])
        else:
            c.random_two_qubit_gate(q[0], q[1])
    c.H(0)
    return c.to_symplectic_form()


def _g_clifford(r):
    n = r.randint(2, 4)
    gates = []
    for _ in range(r.randint(2, 8)):
        if r.random() < 0.5:
            gates.append([1, [r.randrange(n)]])
        else:
            gates.append([2, r.sample(range(n), 2)])
    return {'gates': gates}


reg('CliffordCircuit.random_gate', _g_clifford, _c_clifford, None, weight=2, fresh_result=False)


def _fixed_dm(d, seed):
    r = np.random.Generator(np.random.PCG64(seed))
    a = r.normal(size=(d, d)) + 1j * r.normal(size=(d, d))
    rho = a @ a.conj().T
    return rho / np.trace(rho)


reg('get_purification',
    lambda r: (lambda d: {'d': d, 'dimR': r.choice([d, d + 1, d + 2]), 'rho_seed': r.getrandbits(32)})(r.randint(2, 4)),
    lambda nq, a, s: nq.utils.get_purification(_fixed_dm(a['d'], a['rho_seed']), dimR=a['dimR'], seed=s),
    lambda nq, a, v: None if (isinstance(v, np.ndarray) and v.shape == (a['d'], a['dimR'])
                              and np.abs(v @ v.conj().T - _fixed_dm(a['d'], a['rho_seed'])).max() < 1e-8) else 'psi psi^dagger != rho')

reg('get_completed_entangled_subspace',
    lambda r: {'dim_tuple': r.choice([[2, 2], [2, 3], [3, 3], [2, 2, 2]])},
    lambda nq, a, s: nq.matrix_space.get_completed_entangled_subspace(tuple(a['dim_tuple']), 'quant-ph/0405077', seed=s),
    None)

def _m_mps_dicke(nq, a, v):
    import math
    if not (isinstance(v, tuple) and len(v) == 4):
        return 'expected (mps_alpha, klist, matA, matB)'
    mps_alpha, klist, matA, matB = v
    nd = math.comb(a['num_qudit'] + a['dim'] - 1, a['dim'] - 1)
    if klist.shape != (nd, a['dim']) or matA.shape[1] != nd or matB.shape[0] != nd or mps_alpha.shape[1] != a['dim'] or mps_alpha.shape[0] != matA.shape[0]:
        return f'shapes {mps_alpha.shape},{klist.shape},{matA.shape},{matB.shape} do not fit dim={a["dim"]}, num_qudit={a["num_qudit"]}'
    if mps_alpha.shape[0] < nd * a['num_more_space'] - 1 and mps_alpha.shape[0] < nd + 3:
        return f'{mps_alpha.shape[0]} MPS vectors for num_more_space={a["num_more_space"]} and {nd} Dicke states'
    if np.abs(matB @ matA - np.eye(nd)).max() > 1e-6:
        return 'matB is not a left inverse of matA'


reg('get_mps_dicke_transform_matrix',
    lambda r: {'dim': r.randint(2, 3), 'num_qudit': r.randint(2, 3), 'num_more_space': r.choice([1.05, 1.05, 1.5, 2.0, 3.0])},
    lambda nq, a, s: nq.entangle.pureb_quantum.get_mps_dicke_transform_matrix(a['dim'], a['num_qudit'], num_more_space=a['num_more_space'], seed=s),
    _m_mps_dicke, weight=1.5, branch=lambda a: f"more_space={'default' if a['num_more_space'] == 1.05 else 'other'}")


# ------------------------------------------------------------------------------------------------ heavy: minimizers, solvers
_MODELS = {}


def make_model(nq, spec, fresh_key=None):
    import torch

    class Quartic(torch.nn.Module):
        def __init__(self, n, c):
            super().__init__()
            self.theta = torch.nn.Parameter(torch.rand(n, dtype=torch.float64) - 0.5)  # global torch generator on purpose
            self.c = torch.tensor(c, dtype=torch.float64)

        def forward(self):
            return ((self.theta ** 2 - 1) ** 2).sum() + torch.dot(self.c, self.theta) + 0.05 * (self.theta[:-1] * self.theta[1:]).sum()

    class SphereQuad(torch.nn.Module):
        def __init__(self, d, A):
            super().__init__()
            self.manifold = nq.manifold.Sphere(d, dtype=torch.float64)
            self.A = torch.tensor(A, dtype=torch.float64)

        def forward(self):
            x = self.manifold()
            return torch.dot(x, self.A @ x)
    r = np.random.Generator(np.random.PCG64(spec['mseed']))
    if spec['model'] == 'quartic':
        return Quartic(spec['n'], r.uniform(-0.3, 0.3, size=spec['n']).tolist())
    A = r.normal(size=(spec['n'], spec['n']))
    return SphereQuad(spec['n'], (A + A.T).tolist())


def _opt_result(res):
    return {'x': np.asarray(res.x), 'fun': float(res.fun), 'nit': int(res.nit), 'nfev': int(res.nfev), 'status': int(res.status)}


def _c_minimize(nq, a, s, ctx=None):
    key = ('model', a['model'], a['n'], a['mseed'])  # one model object per (kind, n, mseed): shared with minimize_adam specs of the same run
    if a['reuse'] and ctx is not None and key in ctx:
        model = ctx[key]
    else:
        model = make_model(nq, a)
        if ctx is not None:
            ctx[key] = model
    cb = None
    if a['callback']:
        cb = nq.optimize.MinimizeCallback(print_freq=a['print_freq'], extra_key=a['extra_key'], tag_print=False)
    res = nq.optimize.minimize(model, theta0=_tup(a['theta0']) if isinstance(a['theta0'], list) else a['theta0'], num_repeat=a['num_repeat'], tol=1e-9,
                               print_every_round=0, maxiter=a['maxiter'], callback=cb, seed=s)
    out = _opt_result(res)
    out['params_after'] = nq.optimize.get_model_flat_parameter(model)
    if cb is not None:
        st = cb.state
        out['cb'] = {k: (np.asarray(v) if k != 'step' else int(v)) for k, v in st.items() if k != 'time'}
        out['cb_time'] = [float(t) for t in st['time']]
    return out


def _g_minimize(r):
    cb = r.random() < 0.5
    return {'model': r.choice(['quartic', 'sphere']), 'n': r.randint(2, 5), 'mseed': r.getrandbits(16), 'reuse': r.random() < 0.5,
            'theta0': r.choice([None, 'uniform', 'normal', ['uniform', -2, 2], ['normal', 0, 0.5]]), 'num_repeat': r.randint(1, 3), 'maxiter': r.choice([None, 5, 20]),
            'callback': cb, 'print_freq': r.choice([1, 2]), 'extra_key': r.choice([[], ['grad_norm'], ['path'], ['grad_norm', 'path']])}


reg('optimize.minimize', _g_minimize, _c_minimize, None, weight=3, heavy=True,
    branch=lambda a: f"cb={a['callback']},theta0={a['theta0'] if not isinstance(a['theta0'], list) else a['theta0'][0] + '-tuple'}")


def _c_adam(nq, a, s, ctx=None):
    key = ('model', a['model'], a['n'], a['mseed'])
    if a.get('reuse') and ctx is not None and key in ctx:
        model = ctx[key]  # possibly left behind by numqi.optimize.minimize on the same object (gradients, parameters)
    else:
        model = make_model(nq, a)
        if ctx is not None:
            ctx[key] = model
    loss, hist = nq.optimize.minimize_adam(model, a['num_step'], theta0=_tup(a['theta0']), optim_args=tuple(a['optim_args']), seed=s, tqdm_update_freq=0, tag_return_history=True)
    return {'loss': float(loss), 'hist': np.asarray(hist), 'params_after': nq.optimize.get_model_flat_parameter(model)}


reg('optimize.minimize_adam',
    lambda r: {'model': r.choice(['quartic', 'sphere']), 'n': r.randint(2, 4), 'mseed': r.getrandbits(16), 'num_step': r.randint(3, 15),
               'theta0': r.choice(['uniform', 'normal', None, ['uniform', -2, 2], ['normal', 0, 0.5]]), 'optim_args': r.choice([['adam', 0.05], ['sgd', 0.01], ['adam', 0.05, 0.01]]), 'reuse': r.random() < 0.6},
    _c_adam, None, weight=1.3, heavy=True, branch=lambda a: f"{a['optim_args'][0]},{a['theta0'] if not isinstance(a['theta0'], list) else a['theta0'][0] + '-tuple'}")


def _target_dm(nq, a):
    if a['target'] == 'random':  # a generic direction: the first bisection points are usually inside the separable set
        return _fixed_dm(a['d'] * a['d'], a.get('tseed', 0))
    if a['target'] == 'werner':
        return nq.state.Werner(a['d'], a['alpha'])
    return nq.state.Isotropic(a['d'], a['alpha'])


def _c_cha(nq, a, s, ctx=None):
    key = ('cha', a['d'], a['num_state'])
    if a['reuse'] and ctx is not None and key in ctx:
        model = ctx[key]
    else:
        model = nq.entangle.CHABoundaryBagging((a['d'], a['d']), num_state=a['num_state'])
        if ctx is not None:
            ctx[key] = model
    beta, info = model.solve(_target_dm(nq, a), maxiter=a['maxiter'], return_info=True, seed=s)
    return {'beta': float(beta), 'history': np.asarray(info[3], dtype=np.float64), 'ketA': np.asarray(info[0])}


reg('CHABoundaryBagging.solve',
    lambda r: {'d': 2, 'num_state': r.choice([40, 48, 24, 22]), 'target': r.choice(['werner', 'isotropic', 'random']), 'tseed': r.randrange(8), 'alpha': r.choice([0.9, 1.0]), 'maxiter': r.randint(3, 12), 'reuse': r.random() < 0.5},
    _c_cha, None, weight=1, heavy=True, solver=True, branch=lambda a: a['target'])


def _boundary_result(ret, return_info):
    if return_info:
        beta, info = ret
        return {'beta': float(beta), 'info': [tuple(float(y) for y in np.asarray(x).reshape(-1)) for x in info]}
    return {'beta': float(ret)}


def _herm(d, seed):
    r = np.random.Generator(np.random.PCG64(seed))
    a = r.normal(size=(d, d)) + 1j * r.normal(size=(d, d))
    return a + a.conj().T


def _numerical_range(model, a, s):
    d2 = a['d'] * a['d']
    ret = model.get_numerical_range(_herm(d2, a.get('tseed', 0) + 100), _herm(d2, a.get('tseed', 0) + 200), num_theta=a.get('num_theta', 3), converge_tol=1e-6, use_tqdm=False, seed=s)
    return {'range': np.asarray(ret)}


def _c_charee(nq, a, s, ctx=None):
    key = ('charee', a['d'], a['num_state'], a['distance_kind'])
    if a.get('reuse') and ctx is not None and key in ctx:
        model = ctx[key]  # the model object was used before: its leftover parameters must not matter
    else:
        model = nq.entangle.AutodiffCHAREE((a['d'], a['d']), num_state=a['num_state'], distance_kind=a['distance_kind'])
        if ctx is not None:
            ctx[key] = model
    if a.get('api') == 'numerical_range':
        return _numerical_range(model, a, s)
    ret = model.get_boundary(_target_dm(nq, a), xtol=a['xtol'], converge_tol=1e-8, use_tqdm=False, return_info=a.get('return_info', False), seed=s)
    return _boundary_result(ret, a.get('return_info', False))


reg('AutodiffCHAREE.get_boundary',
    lambda r: {'d': 2, 'num_state': r.choice([4, 6]), 'distance_kind': r.choice(['ree', 'gellmann']), 'target': r.choice(['werner', 'isotropic', 'random', 'random', 'random']), 'tseed': r.randrange(8), 'alpha': r.choice([1.0, 0.8]),
               'xtol': r.choice([0.1, 0.05]), 'reuse': r.random() < 0.7, 'return_info': r.random() < 0.8, 'api': r.choice(['boundary', 'boundary', 'numerical_range']), 'num_theta': r.randint(2, 4)},
    _c_charee, None, weight=1.0, heavy=True, solver=True, branch=lambda a: f"{a['api']},{a['distance_kind']},reuse={a['reuse']},info={a['return_info']}")


def _c_pureb(nq, a, s, ctx=None):
    key = ('pureb', a['d'], a['kext'], a['distance_kind'])
    if a.get('reuse') and ctx is not None and key in ctx:
        model = ctx[key]
    else:
        model = nq.entangle.PureBosonicExt(a['d'], a['d'], kext=a['kext'], distance_kind=a['distance_kind'])
        if ctx is not None:
            ctx[key] = model
    if a.get('api') == 'numerical_range':
        return _numerical_range(model, a, s)
    ret = model.get_boundary(_target_dm(nq, a), xtol=a['xtol'], converge_tol=1e-8, use_tqdm=False, return_info=a.get('return_info', False), seed=s)
    return _boundary_result(ret, a.get('return_info', False))


reg('PureBosonicExt.get_boundary',
    lambda r: {'d': 2, 'kext': 3, 'distance_kind': r.choice(['ree', 'gellmann']), 'target': r.choice(['werner', 'isotropic', 'random', 'random', 'random']), 'tseed': r.randrange(8), 'alpha': r.choice([1.0, 0.8]),
               'xtol': r.choice([0.1, 0.05]), 'reuse': r.random() < 0.7, 'return_info': r.random() < 0.8, 'api': r.choice(['boundary', 'boundary', 'numerical_range']), 'num_theta': r.randint(2, 4)},
    _c_pureb, None, weight=1.0, heavy=True, solver=True, branch=lambda a: f"{a['api']},{a['distance_kind']},reuse={a['reuse']},info={a['return_info']}")


def _c_check_ud(nq, a, s, ctx=None):
    pg = nq.gate.get_pauli_group(a['num_qubit'], kind='numpy')
    mat_list = np.ascontiguousarray(pg[list(a['index'])])
    tag, loss = nq.unique_determine.check_UD(a['kind'], mat_list, num_repeat=a['num_repeat'], converge_tol=1e-5, dtype=a['dtype'], num_worker=1, seed=s)
    return {'tag': bool(tag), 'loss': float(loss)}


def _g_check_ud(r):
    n = r.choice([1, 2])
    tot = 4 ** n
    k = r.randint(2, min(tot - 1, 7))
    return {'num_qubit': n, 'index': [0] + sorted(r.sample(range(1, tot), k - 1)), 'kind': r.choice(['uda', 'udp']), 'num_repeat': r.randint(1, 3), 'dtype': r.choice(['float32', 'float64'])}


reg('unique_determine.check_UD', _g_check_ud, _c_check_ud, None, weight=0.6, heavy=True, branch=lambda a: f"{a['kind']},{a['dtype']}")

# arguments that may be changed on their own without leaving the admissible set (used for same-seed sibling specs)
SIB_KEYS = {
    'get_mps_dicke_transform_matrix': ['num_more_space'], 'rand_n_sphere': ['size'], 'rand_n_ball': ['size'], 'rand_haar_state': ['tag_complex'],
    'rand_density_matrix': ['kind'], 'rand_SpF2': ['return_kind'], 'rand_pauli': ['is_hermitian'], 'rand_hermitian_matrix': ['tag_complex', 'eig'],
    'rand_special_orthogonal_matrix': ['batch_size', 'tag_complex'], 'rand_separable_dm': ['pure_term', 'k'], 'rand_bipartite_state': ['return_dm'],
    'rand_reducible_matrix_subspace': ['return_unitary', 'num_matrix'], 'rand_orthonormal_matrix_basis': ['with_I', 'num_sample'], 'get_purification': ['dimR'],
    'rand_kraus_op': ['tag_complex'], 'get_numpy_rng': ['spawn', 'n'],
}

LIGHT = [k for k, v in R.items() if not v['heavy']]
HEAVY = [k for k, v in R.items() if v['heavy']]


def evaluate(nq, spec, seeded=True, ctx=None, seed_type='int'):
    e = R[spec['fn']]
    s = int(spec['seed']) if seeded else None
    if s is not None and seed_type != 'int' and not e['heavy']:
        s = {'np.int64': np.int64, 'np.uint64': np.uint64}[seed_type](s)  # the same integer in another integer type
    if e['heavy']:
        return e['call'](nq, spec['args'], s, ctx)
    return e['call'](nq, spec['args'], s)
