"""C07 engine: CliffordCircuit under arbitrary interleavings of appends, queries, cache wipes and injected
exceptions, checked operation by operation against the dense reference model (DESIGN §3).

SUT (real code): numqi.sim.CliffordCircuit, numqi.sim.clifford.{apply_clifford_on_pauli, clifford_multiply,
clifford_array_to_F2}, numqi.gate.PauliOperator, numqi.sim.Circuit.to_unitary (via to_universal_circuit()).
"""
import copy
import random

import numpy as np

from models import dense_pauli as dp
from simkit import faults, rng as srng, seams, trace

PROPERTY = 'C07'
RULE = ('each run = one seeded Plan (swarm config + list of append/query/cache-wipe/reject ops with fault placements) executed '
        'against real CliffordCircuit objects and a dense reference model; first runs are stratified over all append/query '
        'shape words of length<=6; a run is non-trivial if it executed >=1 append and >=1 checked query; distinct = distinct '
        'sha256 of the op list')
COMPONENTS = {
    'real': ['numqi.sim.CliffordCircuit (gate recording, memoised tableau, random_*_gate, to_universal_circuit)',
             'numqi.sim.clifford.apply_clifford_on_pauli / clifford_multiply / clifford_array_to_F2 / _basic_clifford_dagger_f2 cache',
             'numqi.gate.PauliOperator (@, from_full_matrix)', 'numqi.sim.Circuit.to_unitary / apply_state', 'all 23 lru_cache tables (wiped / re-sized by the simulator)'],
    'stubbed': ['OS entropy (sim-owned stream)', "the circuit's np_rng (ScriptedGenerator: the scheduler picks which random gate is appended)"],
}
ASSUMPTIONS = [
    'dense reference model (own 2x2 constants, kron embedding) is correct; Pauli phase convention i^(2b0+b1) X^x Z^z read off pauli_F2_to_str',
    'single-threaded use; no pre-emptive interleaving inside an operation except injected KeyboardInterrupt/MemoryError at function entries and loop back-edges of numqi code',
    'callers do not mutate the arrays returned by to_symplectic_form() nor gate_index_list',
    'queries are only issued once at least one gate is recorded; Paulis have the current width',
]

SINGLE = dp.SINGLE_NAMES
TWO = dp.TWO_NAMES
RAND1 = ['I'] + SINGLE  # what random_one_qubit_gate may append (I = nothing); order is NOT assumed
QUERY_KINDS = ['form', 'apply', 'auto', 'export', 'nq', 'compose', 'apply_all']
MAX_CANDS = 96
RESOLVE_AT = 24


def budget(tier):
    if tier == 'quick':
        return {'runs': 6000, 'wall_cap_s': 100, 'per_run_timeout_s': 60, 'shrink_tests': 400}
    return {'runs': 240000, 'wall_cap_s': 2700, 'per_run_timeout_s': 120, 'shrink_tests': 800}


# ------------------------------------------------------------------------------------------------ generation
def _shape_words(maxlen=6):
    out = []
    for L in range(2, maxlen + 1):
        for k in range(2 ** L):
            w = ''.join('aq'[(k >> i) & 1] for i in range(L))
            if 'a' in w and 'q' in w:
                out.append(w)
    return out


SHAPE_WORDS = _shape_words()

# systematic stratum: every gate sequence of length <= 3 over the 16 gate instances on 2 qubits (5 single-qubit gates x 2
# qubits + 3 two-qubit gates x 2 orientations), with a full query after every append (the shape the test-suite lacks)
GATE_INSTANCES_2Q = [(g, q) for g in dp.SINGLE_NAMES for q in (0, 1)] + [(g, a, b) for g in dp.TWO_NAMES for (a, b) in ((0, 1), (1, 0))]
N_SYSTEMATIC = sum(len(GATE_INSTANCES_2Q) ** L for L in (1, 2, 3))  # 4368


def _systematic_plan(k):
    L = 1
    while k >= len(GATE_INSTANCES_2Q) ** L:
        k -= len(GATE_INSTANCES_2Q) ** L
        L += 1
    seq = []
    for _ in range(L):
        seq.append(GATE_INSTANCES_2Q[k % len(GATE_INSTANCES_2Q)])
        k //= len(GATE_INSTANCES_2Q)
    ops = []
    for j, g in enumerate(seq):
        ops.append({'op': 'append', 'c': 0, 'g': g[0], 'q': list(g[1:])})
        ops.append({'op': 'form', 'c': 0} if j % 2 == 0 else {'op': 'apply_all', 'c': 0})
    ops.append({'op': 'export', 'c': 0})
    ops.append({'op': 'apply_all', 'c': 0})
    return {'engine': PROPERTY, 'config': {'nmax': 2, 'lru': None, 'entropy': 0, 'systematic': True}, 'ops': ops}


def generate(run_seed, index, tier):
    st = srng.Streams(run_seed)
    cfg_r, prog_r, flt_r = st['config'], st['program'], st['faults']
    thorough = (tier == 'thorough')
    nmax = srng.weighted(cfg_r, [(1, 2), (2, 4), (3, 3), (4, 2), (5, 1 if not thorough else 2), (6, 0.6), (7, 0.4)])
    two = cfg_r.random() < 0.25
    lru = srng.weighted(cfg_r, [(None, 7), (0, 1), (1, 1), (2, 1)])
    fault_rate = srng.weighted(cfg_r, [(0.0, 5), (0.06, 2), (0.15, 2), (0.3, 1)])
    fault_kinds = [k for k in ('interrupt', 'alloc_fail') if cfg_r.random() < 0.7] or ['interrupt']
    gates = SINGLE + (TWO if nmax >= 2 else [])
    if cfg_r.random() < 0.5:
        sub = [g for g in gates if cfg_r.random() < 0.5]
        gates = sub or [cfg_r.choice(gates)]
    use_rand = cfg_r.random() < 0.35
    use_wipe = cfg_r.random() < 0.3
    use_reject = cfg_r.random() < 0.2
    use_clone = cfg_r.random() < 0.25
    if use_clone and cfg_r.random() < 0.5:
        two = True
    p_append = cfg_r.choice([0.3, 0.5, 0.7, 0.85])
    qweights = [(k, cfg_r.choice([0, 1, 1, 2, 4])) for k in QUERY_KINDS]
    if sum(w for _, w in qweights) == 0:
        qweights = [(k, 1) for k in QUERY_KINDS]
    base = 3 * len(SHAPE_WORDS)
    if thorough and base <= index < base + N_SYSTEMATIC:
        return _systematic_plan(index - base)
    if (not thorough) and base <= index < base + 300:
        return _systematic_plan(cfg_r.randrange(N_SYSTEMATIC))
    stratified = index < base
    if stratified:
        word = SHAPE_WORDS[index % len(SHAPE_WORDS)]
        if index < len(SHAPE_WORDS):  # the plainest stratum: one circuit, no faults, default caches
            two, lru, fault_rate, use_rand, use_wipe, use_reject, use_clone = False, None, 0.0, False, False, False, False
    elif cfg_r.random() < 0.04:
        # closure walk: a long random walk on the 1/2-qubit Clifford group with a tableau query after every gate
        nmax = cfg_r.choice([1, 2, 2, 2])
        gates = SINGLE + (TWO if nmax >= 2 else [])
        two, use_rand, use_reject, fault_rate = False, False, False, 0.0
        qweights = [('form', 1)]
        word = 'aq' * (60 if thorough else 30)
    elif cfg_r.random() < 0.04:
        # append burst: a query, then a long uninterrupted run of appends (longer than any plausible pending-queue bound), then queries
        two, use_rand, use_reject, use_clone = False, False, False, False
        word = 'aq' + 'a' * cfg_r.choice([33, 40, 50, 57]) + 'q'
    else:
        L = srng.weighted(cfg_r, [('s', 6), ('m', 3), ('l', 1)])
        L = {'s': cfg_r.randint(2, 6), 'm': cfg_r.randint(7, 15), 'l': cfg_r.randint(16, 60 if thorough else 30)}[L]
        word = ''.join('a' if prog_r.random() < p_append else 'q' for _ in range(L))
    ops = []
    unresolved = {0: 0, 1: 0}
    wide_r = st['wide']  # its own stream, as below
    if (not stratified) and wide_r.random() < 0.05:
        return _wide_plan(wide_r, cfg_r, lru, thorough)
    thr_r = st['threads']  # its own stream: plans of runs that do not take this branch are unchanged
    if (not stratified) and thr_r.random() < 0.10:
        return _thread_plan(thr_r, cfg_r, nmax, lru, thorough)

    def pauli_ints(k):
        return [prog_r.getrandbits(2 * 8 + 2) for _ in range(k)]

    def mk_append(c):
        r = prog_r.random()
        if use_rand and r < 0.25 and unresolved[c] < 2:
            unresolved[c] += 1
            if nmax >= 2 and prog_r.random() < 0.4:
                q = prog_r.sample(range(nmax), 2)
                return {'op': 'rand2', 'c': c, 'q': q, 'pick': prog_r.randrange(6)}
            return {'op': 'rand1', 'c': c, 'q': [prog_r.randrange(nmax)], 'pick': prog_r.randrange(6)}
        if r > 0.95:
            return {'op': 'ident', 'c': c, 'q': [prog_r.randrange(nmax + 2)]}
        g = prog_r.choice(gates)
        extra = {}
        if prog_r.random() < 0.1:
            extra['npint'] = True
        if g == 'CX' and prog_r.random() < 0.3:
            extra['alias'] = True
        if g in TWO:
            return dict({'op': 'append', 'c': c, 'g': g, 'q': prog_r.sample(range(nmax), 2)}, **extra)
        return dict({'op': 'append', 'c': c, 'g': g, 'q': [prog_r.randrange(nmax)]}, **extra)

    def mk_query(c):
        k = srng.weighted(prog_r, qweights)
        o = {'op': k, 'c': c}
        if k == 'apply':
            o['p'] = pauli_ints(prog_r.randint(1, 6))
        elif k == 'auto':
            o['pairs'] = [pauli_ints(2) for _ in range(prog_r.randint(1, 4))]
        elif k == 'compose':
            o['split'] = round(prog_r.random(), 3)
        if k in ('form', 'apply_all'):
            unresolved[c] = 0
        return o

    for ch in word:
        c = 1 if (two and prog_r.random() < 0.4) else 0
        if use_wipe and prog_r.random() < 0.1:
            ops.append({'op': 'wipe'})
        if use_clone and prog_r.random() < 0.12:
            ops.append({'op': 'clone', 'c': c, 'how': prog_r.choice(['deepcopy', 'pickle'])})
        if use_clone and two and prog_r.random() < 0.12:
            ops.append({'op': 'fork', 'c': c})
        if use_reject and prog_r.random() < 0.1:
            ops.append({'op': 'reject', 'c': c, 'kind': prog_r.choice(['neg', 'same', 'same_high']), 'g': prog_r.choice(SINGLE + TWO)})
        o = mk_append(c) if ch == 'a' else mk_query(c)
        if fault_rate and flt_r.random() < fault_rate:
            o['fault'] = {'kind': flt_r.choice(fault_kinds), 'frac': round(flt_r.random(), 4)}
        ops.append(o)
    # every run ends with fault-free full checks of every circuit (bounded liveness: the next operation after faults is correct)
    for c in ([0, 1] if two else [0]):
        ops.append({'op': 'form', 'c': c})
        ops.append({'op': 'apply', 'c': c, 'p': pauli_ints(4)})
    return {'engine': PROPERTY, 'config': {'nmax': nmax, 'lru': lru, 'entropy': cfg_r.getrandbits(32)}, 'ops': ops}


def _wide_plan(r, cfg_r, lru, thorough):
    """registers wider than the dense model can hold (up to 16 qubits): every circuit touches at most 5 qubits of the register, so
    the dense model of the *relabelled* compact circuit predicts it exactly (U = U_compact (x) identity). Several circuits per run,
    same register, so module-level state keyed by qubit indices is shared between them."""
    W = r.choice([8, 11, 12, 13, 14, 16])
    k = r.randint(2, 5)
    if W >= 11 and r.random() < 0.5:
        z = r.randrange(min(6, W - 10))
        pool = sorted({1, 11, z, 10 + z} | set(r.sample(range(W), max(0, k - 4))))  # indices whose decimal digits concatenate alike
    else:
        pool = sorted(r.sample(range(W), k))
    anchor = r.random() < 0.7
    if anchor and (W - 1) not in pool:
        pool = sorted(pool[:4] + [W - 1])  # every circuit of the run then has the same register size
    ops = []
    for _ in range(r.randint(2, 4)):
        kk = len(pool)
        gates = [['H', kk - 1]] if anchor else []
        for _ in range(r.randint(2, 12 if not thorough else 24)):
            g = r.choice(SINGLE + TWO + TWO)
            gates.append([g] + (r.sample(range(kk), 2) if g in TWO else [r.randrange(kk)]))
        ops.append({'op': 'wide', 'W': W, 'qmap': pool, 'gates': gates, 'mid': r.randrange(len(gates) + 1),
                    'p': [r.getrandbits(2 * kk + 2) for _ in range(r.randint(1, 5))], 'rest': r.getrandbits(2 * W)})
    return {'engine': PROPERTY, 'config': {'nmax': W, 'lru': lru, 'entropy': cfg_r.getrandbits(32)}, 'ops': ops}


def _thread_plan(r, cfg_r, nmax, lru, thorough):
    """two caller threads, each with its OWN CliffordCircuit (nothing but numqi's module state is shared), query concurrently;
    the scheduler decides every hand-over (op 'conc', simkit.faults.Interleaver)"""
    nmax = max(1, min(nmax, 6))
    gates = SINGLE + (TWO if nmax >= 2 else [])

    def app(c):
        g = r.choice(gates)
        return {'op': 'append', 'c': c, 'g': g, 'q': r.sample(range(nmax), 2) if g in TWO else [r.randrange(nmax)]}

    def qry(c):
        k = r.choice(['form', 'form', 'apply', 'apply', 'auto', 'apply_all'])
        o = {'op': k, 'c': c}
        if k == 'apply':
            o['p'] = [r.getrandbits(18) for _ in range(r.randint(1, 4))]
        elif k == 'auto':
            o['pairs'] = [[r.getrandbits(18), r.getrandbits(18)] for _ in range(r.randint(1, 3))]
        return o
    ops = []
    same_width = r.random() < 0.75
    for c in (0, 1):
        if same_width:
            ops.append({'op': 'append', 'c': c, 'g': 'H', 'q': [nmax - 1]})
        for _ in range(r.randint(1, 14 if not thorough else 30)):
            ops.append(app(c))
        if r.random() < 0.3:
            ops.append(qry(c))
            for _ in range(r.randint(1, 6)):
                ops.append(app(c))
    if r.random() < 0.25:
        ops.append({'op': 'fork', 'c': 0})
        for c in (0, 1):
            for _ in range(r.randint(1, 4)):
                ops.append(app(c))
    for k in range(r.randint(1, 3)):
        if k:
            for c in (0, 1):
                for _ in range(r.randint(1, 5)):
                    ops.append(app(c))
        if r.random() < 0.4:
            ops.append({'op': 'wipe'})
        ops.append({'op': 'conc', 'a': qry(0), 'b': qry(1), 'first': r.randrange(2),
                    'quanta': [r.choice([1, 2, 3, 5, 8, 13, 21, 34, 55]) for _ in range(r.randint(1, 14))]})
    for c in (0, 1):
        ops.append({'op': 'form', 'c': c})
        ops.append({'op': 'apply', 'c': c, 'p': [r.getrandbits(18) for _ in range(4)]})
    return {'engine': PROPERTY, 'config': {'nmax': nmax, 'lru': lru, 'entropy': cfg_r.getrandbits(32)}, 'ops': ops}


def simplify(plan):
    ops = plan['ops']
    for i, o in enumerate(ops):
        if o['op'] == 'conc':
            if len(o['quanta']) > 1:
                for j in range(len(o['quanta'])):
                    p = copy.deepcopy(plan)
                    del p['ops'][i]['quanta'][j]
                    yield p
            for side in ('a', 'b'):
                if o[side]['op'] != 'form':
                    p = copy.deepcopy(plan)
                    p['ops'][i][side] = {'op': 'form', 'c': o[side]['c']}
                    yield p
    for i, o in enumerate(ops):
        if 'fault' in o:
            p = copy.deepcopy(plan)
            del p['ops'][i]['fault']
            yield p
    if plan['config'].get('lru') is not None:
        p = copy.deepcopy(plan)
        p['config']['lru'] = None
        yield p
    if any(o.get('c') == 1 for o in ops):
        p = copy.deepcopy(plan)
        p['ops'] = [o for o in p['ops'] if o.get('c', 0) == 0]
        yield p
    for i, o in enumerate(ops):
        if o['op'] == 'append' and o['g'] != 'H' and o['g'] in SINGLE:
            p = copy.deepcopy(plan)
            p['ops'][i]['g'] = 'H'
            yield p
        if o['op'] in ('rand1', 'rand2'):
            p = copy.deepcopy(plan)
            p['ops'][i] = {'op': 'append', 'c': o['c'], 'g': 'H' if o['op'] == 'rand1' else 'CX', 'q': o['q']}
            yield p
        if o['op'] == 'apply' and len(o['p']) > 1:
            for j in range(len(o['p'])):
                p = copy.deepcopy(plan)
                p['ops'][i]['p'] = [o['p'][j]]
                yield p
        if o['op'] in ('apply', 'auto', 'export', 'nq', 'compose', 'apply_all'):
            p = copy.deepcopy(plan)
            p['ops'][i] = {'op': 'form', 'c': o['c']}
            yield p
    qs = sorted({q for o in ops for q in o.get('q', [])})
    if qs and qs != list(range(len(qs))):
        m = {q: j for j, q in enumerate(qs)}
        p = copy.deepcopy(plan)
        for o in p['ops']:
            if 'q' in o:
                o['q'] = [m[q] for q in o['q']]
        yield p


# ------------------------------------------------------------------------------------------------ execution
class Violation(Exception):
    def __init__(self, oracle, api, detail):
        self.oracle, self.api, self.detail = oracle, api, detail


class _Capture(Exception):
    def __init__(self, fn_on, circ, api):
        self.fn_on, self.circ, self.api = fn_on, circ, api


class Cand:
    __slots__ = ('hist', '_U')

    def __init__(self, hist):
        self.hist = tuple(hist)
        self._U = {}

    @property
    def width(self):
        return dp.history_width(self.hist)

    def U(self):
        n = self.width
        if n not in self._U:
            self._U[n] = dp.history_unitary(self.hist, n)
        return self._U[n]


def _bits(k, n):
    return np.array([(k >> i) & 1 for i in range(2 * n + 2)], dtype=np.uint8)


def _close(a, b):
    return a.shape == b.shape and float(np.abs(a - b).max()) < 1e-9


class Sim:
    def __init__(self, plan, keep_events):
        import numqi
        self.nq = numqi
        self.plan = plan
        self.log = trace.EventLog(keep=keep_events)
        self.stats = {}
        self.cover = {'tab1': set(), 'tab2': set(), 'tab3p': set()}
        self.inj = faults.Injector()
        self.circ = {}
        self.cands = {}
        self.unspecified = set()
        self.shape = []
        self.last_kind = {}
        self.seen_q_then_a = {}
        self.mode = None  # None | 'capture' | 'replay' (op 'conc': the SUT call of a query runs on a simulated caller thread)
        self.pre = None
        self.handed = []  # (R object, S object, copy of R, copy of S, history at that time) handed out by earlier queries

    def bump(self, k, v=1):
        self.stats[k] = self.stats.get(k, 0) + v

    # ---- SUT access ----
    def get_circ(self, c):
        if c not in self.circ:
            self.circ[c] = self.nq.sim.CliffordCircuit(seed=seams.ScriptedGenerator(seed=c))
            self.cands[c] = [Cand(())]
        return self.circ[c]

    def fresh_tableau(self, hist):
        f = self.nq.sim.CliffordCircuit()
        for g in hist:
            getattr(f, g[0])(*g[1:])
        R, S = self.valid_tableau(f.to_symplectic_form())
        m = dp.history_width(hist)
        if R.shape != (2 * m,) or S.shape != (2 * m, 2 * m):
            raise Violation('fresh_replay', 'to_symplectic_form', f'a brand-new circuit fed {list(hist)} returned a tableau of shape {R.shape},{S.shape} for {m} qubits')
        return R, S

    # ---- running one SUT call with an optional fault ----
    def call(self, world, op, fn_on, circ, api):
        """fn_on(circuit) performs the SUT call. Returns ('ok', value) | ('faulted', None)"""
        if self.mode == 'capture':
            raise _Capture(fn_on, circ, api)
        if self.mode == 'replay':
            self.mode = None
            kind_, val_ = self.pre
            if kind_ == 'exc':
                raise Violation('unexpected_exception', api, f'{type(val_).__name__}: {val_} (raised while another caller thread, working on its own circuit, was parked inside numqi)')
            return 'ok', val_
        flt = op.get('fault')
        if not flt:
            try:
                return 'ok', fn_on(circ)
            except Exception as e:
                raise Violation('unexpected_exception', api, f'{type(e).__name__}: {e}')
        kind = flt['kind']
        self.bump(f'fault.{kind}.configured')
        clone = copy.deepcopy(circ)
        world.cache_wipe()
        try:
            _, npts = self.inj.count(lambda: fn_on(clone))
        except Exception as e:
            raise Violation('unexpected_exception', api, f'{type(e).__name__}: {e} (count-run on a deep copy)')
        world.cache_wipe()
        k = min(int(flt['frac'] * npts), max(npts - 1, 0))
        try:
            val, fired, exc = self.inj.inject(lambda: fn_on(circ), k, faults.EXC[kind])
        except Exception as e:
            if self.inj.fired_at is not None:
                fired, exc, val = True, e, None
            else:
                raise Violation('unexpected_exception', api, f'{type(e).__name__}: {e}')
        self.log.add('fault', kind, k, npts, bool(fired), str(self.inj.fired_at))
        if self.inj.fired_at is not None:
            self.cover.setdefault('fault_sites', set()).add(f'{self.inj.fired_at[0]}:{self.inj.fired_at[1]}')
        self.stats['max.injection_points_in_one_op'] = max(self.stats.get('max.injection_points_in_one_op', 0), int(npts))
        if fired:
            self.bump(f'fault.{kind}.fired')
            self.bump('probe.third_party_state_restored', seams.third_party_state_restore())
            if exc is None:
                self.bump('probe.swallowed_fault')
                return 'ok', val
            return 'faulted', None
        return 'ok', val

    # ---- observation against the candidate set ----
    def observe(self, c, oracle, api, pred):
        cs = self.cands[c]
        surv, why = [], None
        for cand in cs:
            r = pred(cand)
            if r is True:
                surv.append(cand)
            elif why is None:
                why = r
        if not surv:
            raise Violation(oracle, api, f'{why} [history={list(cs[0].hist)} candidates={len(cs)}]')
        self.cands[c] = surv

    def tableau_ok(self, cand, R, S, extra):
        n = cand.width
        if R.shape != (2 * n,) or S.shape != (2 * n, 2 * n):
            return f'tableau has shape {R.shape},{S.shape} but {n} qubits are in use'
        U = cand.U()
        ap = self.nq.sim.clifford.apply_clifford_on_pauli
        for g in dp.generators(n) + extra:
            g = np.array(g, dtype=np.uint8)
            try:
                out = ap(g, R, S)
            except Exception as e:
                return f'apply_clifford_on_pauli({g.tolist()}, r, S) raised {type(e).__name__}: {e}'
            if not (isinstance(out, np.ndarray) and out.shape == g.shape):
                return f'apply_clifford_on_pauli returned {type(out).__name__} of shape {getattr(out, "shape", None)}'
            if not _close(dp.pauli_matrix(out), U.conj().T @ dp.pauli_matrix(g) @ U):
                return f'P={g.tolist()} -> {out.tolist()} is not U^dagger P U'
        return True

    def record_tableau(self, R, S):
        n = R.shape[0] // 2
        key = trace.digest((R, S))
        self.cover['tab1' if n == 1 else ('tab2' if n == 2 else 'tab3p')].add(f'{n}:{key}' if n > 2 else key)

    def _pickle_roundtrip(self, circ):
        import pickle
        rng = circ.np_rng
        circ.np_rng = None  # the scripted generator is harness-owned; everything else of the object goes through pickle
        try:
            new = pickle.loads(pickle.dumps(circ))
        finally:
            circ.np_rng = rng
        new.np_rng = rng
        return new

    def valid_tableau(self, val):
        if not (isinstance(val, tuple) and len(val) == 2):
            raise Violation('conjugation', 'to_symplectic_form', f'expected a pair (r, S), got {type(val).__name__}')
        R, S = val
        if not (isinstance(R, np.ndarray) and isinstance(S, np.ndarray) and R.dtype == np.uint8 and S.dtype == np.uint8):
            raise Violation('conjugation', 'to_symplectic_form', f'tableau is not a pair of uint8 arrays: ({type(R).__name__}, {type(S).__name__})')
        return R.copy(), S.copy()

    # ---- ops ----
    def do_form(self, world, op, c, circ):
        st, val = self.call(world, op, lambda x: x.to_symplectic_form(), circ, 'to_symplectic_form')
        if st != 'ok':
            return False
        R, S = self.valid_tableau(val)
        self.handed.append((val[0], val[1], R, S, list(self.cands[c][0].hist)))
        self.log.add('form', c, R, S)
        if R.max(initial=0) > 1 or S.max(initial=0) > 1 or not dp.is_symplectic(S):
            raise Violation('conjugation', 'to_symplectic_form', f'S is not a binary symplectic matrix: {S.tolist()}')
        n = R.shape[0] // 2
        extra = [_bits(k, n).tolist() for k in op.get('p', [])]
        self.observe(c, 'conjugation', 'to_symplectic_form', lambda cand: self.tableau_ok(cand, R, S, extra))
        self.record_tableau(R, S)
        # O3 fresh replay: bit-equal to a brand-new circuit fed the recorded gate list
        def fresh_ok(cand):
            R2, S2 = self.fresh_tableau(cand.hist)
            return True if (np.array_equal(R, R2) and np.array_equal(S, S2)) else 'tableau differs from that of a fresh circuit fed the same gates'
        self.observe(c, 'fresh_replay', 'to_symplectic_form', fresh_ok)
        # O6 unitary -> (r,S)
        def from_u(cand):
            try:
                R3, S3 = self.nq.sim.clifford.clifford_array_to_F2(cand.U().conj().T)
            except Exception as e:
                return f'clifford_array_to_F2 raised {type(e).__name__}: {e}'
            return True if (np.array_equal(R, R3) and np.array_equal(S, S3)) else f'clifford_array_to_F2(U^dagger)={R3.tolist()},{S3.tolist()} != tableau {R.tolist()},{S.tolist()}'
        if n <= 5:
            self.observe(c, 'from_unitary', 'clifford_array_to_F2', from_u)
            # "converting any Clifford unitary to (r,S) reproduces its conjugation action": also convert V = L U^dagger for two
            # layers L of local Cliffords (S^a H^b per qubit; they turn X/Z images into Y-rich strings) chosen from the tableau digest
            lr = random.Random(int(trace.digest((R, S)), 16))
            Ud = self.cands[c][0].U().conj().T
            ap = self.nq.sim.clifford.apply_clifford_on_pauli
            for _ in range(2):
                real_layer = lr.random() < 0.5
                L = dp.kron_all([np.linalg.matrix_power(dp.S, (2 * lr.randrange(2)) if real_layer else lr.randrange(4)) @ np.linalg.matrix_power(dp.H, lr.randrange(2)) for _ in range(n)])
                V = L @ Ud
                try:
                    r3, S3 = self.nq.sim.clifford.clifford_array_to_F2(V)
                    imgs = [ap(np.array(g, dtype=np.uint8), r3, S3) for g in dp.generators(n)]
                except Exception as e:
                    raise Violation('from_unitary', 'clifford_array_to_F2', f'{type(e).__name__}: {e} on a Clifford unitary of {n} qubits')
                if float(np.abs(V.imag).max()) < 1e-12:
                    # a real Clifford unitary handed over as a float64 array is the same unitary
                    try:
                        r4, S4 = self.nq.sim.clifford.clifford_array_to_F2(np.ascontiguousarray(V.real))
                    except Exception as e:
                        raise Violation('from_unitary', 'clifford_array_to_F2', f'{type(e).__name__}: {e} on a real (float64) Clifford unitary of {n} qubits')
                    if not (np.array_equal(r4, r3) and np.array_equal(S4, S3)):
                        raise Violation('from_unitary', 'clifford_array_to_F2', f'a real {n}-qubit Clifford unitary converts to a different (r,S) as float64 than as complex128')
                    self.bump('real_dtype_unitary_conversions')
                for g, out in zip(dp.generators(n), imgs):
                    if not _close(dp.pauli_matrix(out), V @ dp.pauli_matrix(g) @ V.conj().T):
                        raise Violation('from_unitary', 'clifford_array_to_F2', f'(r,S) extracted from a {n}-qubit Clifford unitary V maps P={g} to {out.tolist()}, which is not V P V^dagger')
            self.bump('extra_unitary_conversions', 2)
        return True

    def common_width(self, c):
        ws = {cand.width for cand in self.cands[c]}
        return ws.pop() if len(ws) == 1 else None

    def do_apply(self, world, op, c, circ, all_=False):
        n = self.common_width(c)
        if n is None or (all_ and n > 3):
            return None
        ks = list(range(4 ** (n + 1))) if all_ else op['p']
        Ps = [_bits(k, n) for k in ks]
        st, val = self.call(world, op, lambda x: [x.apply_pauli_F2(P.copy()) for P in Ps], circ, 'apply_pauli_F2')
        if st != 'ok':
            return False
        outs = val
        for o in outs:
            if not (isinstance(o, np.ndarray) and o.dtype == np.uint8 and o.shape == (2 * n + 2,) and o.max() <= 1):
                raise Violation('conjugation', 'apply_pauli_F2', f'result {o!r} is not a uint8 F2 vector of length {2*n+2}')
        self.log.add('apply', c, np.stack(outs))

        def ok(cand):
            U = cand.U()
            Ud = U.conj().T
            for P, o in zip(Ps, outs):
                if not _close(dp.pauli_matrix(o), Ud @ dp.pauli_matrix(P) @ U):
                    return f'apply_pauli_F2({P.tolist()})={o.tolist()} is not U^dagger P U'
            return True
        self.observe(c, 'conjugation', 'apply_pauli_F2', ok)
        if all_:
            if len({tuple(o.tolist()) for o in outs}) != len(outs):
                raise Violation('automorphism', 'apply_pauli_F2', 'images of the phased Pauli group are not distinct')
            self.bump('full_pauli_group_sweeps')
        return True

    def do_auto(self, world, op, c, circ):
        n = self.common_width(c)
        if n is None:
            return None
        PO = self.nq.gate.PauliOperator
        pairs = [(_bits(a, n), _bits(b, n)) for a, b in op['pairs']]

        def run(x):
            out = []
            for P, Q in pairs:
                PQ = (PO(P.copy()) @ PO(Q.copy())).F2
                out.append((x.apply_pauli_F2(P.copy()), x.apply_pauli_F2(Q.copy()), PQ, x.apply_pauli_F2(PQ.copy())))
            return out
        st, val = self.call(world, op, run, circ, 'apply_pauli_F2')
        if st != 'ok':
            return False
        for (P, Q), (a, b, PQ, ab) in zip(pairs, val):
            for o in (a, b, PQ, ab):
                if not (isinstance(o, np.ndarray) and o.dtype == np.uint8 and o.shape == (2 * n + 2,) and o.max() <= 1):
                    raise Violation('automorphism', 'apply_pauli_F2', f'result {o!r} is not a uint8 F2 vector of length {2*n+2}')
            self.log.add('auto', c, a, b, PQ, ab)
            if not _close(dp.pauli_matrix(PQ), dp.pauli_matrix(P) @ dp.pauli_matrix(Q)):
                raise Violation('automorphism', 'PauliOperator.__matmul__', f'{P.tolist()} @ {Q.tolist()} = {PQ.tolist()} is not the matrix product')
            try:
                prod = (PO(a) @ PO(b)).F2
            except Exception as e:
                raise Violation('unexpected_exception', 'PauliOperator.__matmul__', f'{type(e).__name__}: {e}')
            if not np.array_equal(prod, ab) or not _close(dp.pauli_matrix(ab), dp.pauli_matrix(a) @ dp.pauli_matrix(b)):
                raise Violation('automorphism', 'apply_pauli_F2', f'f(P)f(Q) != f(PQ) for P={P.tolist()} Q={Q.tolist()}: {a.tolist()},{b.tolist()},{ab.tolist()}')
        return True

    def do_export(self, world, op, c, circ):
        st, val = self.call(world, op, lambda x: x.to_universal_circuit().to_unitary(), circ, 'to_universal_circuit')
        if st != 'ok':
            return False
        if not isinstance(val, np.ndarray):
            raise Violation('statevector', 'to_universal_circuit', f'to_unitary returned {type(val).__name__}')
        Ux = np.asarray(val)
        self.log.add('export', c, np.round(Ux, 9) + 0.0)

        def ok(cand):
            U = cand.U()
            return True if _close(Ux, U) else f'exported circuit unitary differs from the product of the recorded gates (max dev {float(np.abs(Ux - U).max()) if Ux.shape == U.shape else "shape"})'
        self.observe(c, 'statevector', 'to_universal_circuit', ok)
        # "... equals U^dagger P U computed with the state-vector simulator": run the exported circuit on a caller-owned state,
        # twice on the very same array (an expectation value <psi|P'|psi> re-uses psi after computing U psi)
        n = self.cands[c][0].width
        if n <= 6:
            U = self.cands[c][0].U()
            rs = np.random.Generator(np.random.PCG64(int(trace.digest(np.round(Ux, 6) + 0.0), 16) % (2 ** 32)))
            psi = rs.normal(size=2 ** n) + 1j * rs.normal(size=2 ** n)
            psi = psi / np.linalg.norm(psi)
            keep = psi.copy()
            try:
                circ_u = circ.to_universal_circuit()
                out1 = circ_u.apply_state(psi)
                out2 = circ_u.apply_state(psi)
            except Exception as e:
                raise Violation('unexpected_exception', 'to_universal_circuit', f'{type(e).__name__}: {e}')
            if not np.array_equal(psi, keep):
                raise Violation('statevector', 'to_universal_circuit', 'applying the exported circuit modified the caller-owned state in place: a second use of the same state (as in <psi|U^dagger P U|psi>) sees another vector')
            for o in (out1, out2):
                if not (isinstance(o, np.ndarray) and _close(o, U @ keep)):
                    raise Violation('statevector', 'to_universal_circuit', 'the exported circuit applied to a state vector is not U|psi>')
            self.bump('exported_circuit_state_runs')
        return True

    def do_nq(self, world, op, c, circ):
        st, val = self.call(world, op, lambda x: x.num_qubit, circ, 'num_qubit')
        if st != 'ok':
            return False
        self.log.add('nq', c, int(val))
        self.observe(c, 'conjugation', 'num_qubit', lambda cand: True if int(val) == cand.width else f'num_qubit={val}, expected {cand.width}')
        return True

    def do_compose(self, world, op, c, circ):
        if len(self.cands[c]) != 1:
            return None
        hist = self.cands[c][0].hist
        if len(hist) < 2:
            return None
        k = 1 + int(op['split'] * (len(hist) - 1))
        k = min(max(k, 1), len(hist) - 1)
        n = dp.history_width(hist)
        st, val = self.call(world, op, lambda x: x.to_symplectic_form(), circ, 'to_symplectic_form')
        if st != 'ok':
            return False
        R, S = self.valid_tableau(val)
        self.observe(c, 'conjugation', 'to_symplectic_form', lambda cand: self.tableau_ok(cand, R, S, []))

        def emb(hs):
            r, s = self.fresh_tableau(hs)
            m = r.shape[0] // 2
            idx = np.array(list(range(m)) + list(range(n, n + m)))
            R0 = np.zeros(2 * n, dtype=np.uint8)
            S0 = np.eye(2 * n, dtype=np.uint8)
            R0[idx] = r
            S0[idx[:, None], idx] = s
            return R0, S0
        Rp, Sp = emb(hist[:k])
        Rs, Ss = emb(hist[k:])
        try:
            Rz, Sz = self.nq.sim.clifford.clifford_multiply(Rs, Ss, Rp, Sp)
        except Exception as e:
            raise Violation('unexpected_exception', 'clifford_multiply', f'{type(e).__name__}: {e}')
        self.log.add('compose', c, k, Rz, Sz)
        if not (np.array_equal(Rz, R) and np.array_equal(Sz, S)):
            raise Violation('composition', 'clifford_multiply', f'multiply(tableau(suffix), tableau(prefix)) != tableau(whole) at split {k} of {list(hist)}')
        return True

    def do_reject(self, world, op, c, circ):
        n = max((cand.width for cand in self.cands[c]), default=0) or 1
        g = op['g']
        if op['kind'] == 'neg':
            q = [-1] if g in SINGLE else [0, -1]
        elif op['kind'] == 'same_high':
            if g in SINGLE:
                g = 'CZ'
            q = [n + 2, n + 2]
        else:
            if g in SINGLE:
                g = 'CX'
            q = [n - 1, n - 1]
        try:
            getattr(circ, g)(*q)
        except Exception as e:
            self.log.add('reject', c, g, q, type(e).__name__)
            self.bump('rejects')
            return True
        # numqi accepted an inadmissible gate: the property says nothing about what this means -> stop checking this circuit
        self.unspecified.add(c)
        self.bump('probe.unspecified_reject_accepted')
        return None

    def do_wide(self, world, op):
        """a circuit on a register of W<=16 qubits that touches only the qubits of op['qmap']: checked against the dense model of the
        relabelled compact circuit (relabelling qubits and tensoring with identities cannot change a conjugation action)"""
        W, qmap = int(op['W']), list(op['qmap'])
        k = len(qmap)
        hist = tuple(tuple(g) for g in op['gates'])
        try:
            circ = self.nq.sim.CliffordCircuit()
            mid_form = None
            for j, g in enumerate(hist):
                if j == op['mid'] and j > 0:
                    mid_form = circ.to_symplectic_form()  # memo exists, later gates are pending
                getattr(circ, g[0])(*[qmap[q] for q in g[1:]])
            R, S = self.valid_tableau(circ.to_symplectic_form())
        except Violation:
            raise
        except Exception as e:
            raise Violation('unexpected_exception', 'to_symplectic_form', f'{type(e).__name__}: {e} (register of {W} qubits, gates on {qmap})')
        Wc = R.shape[0] // 2
        need = max(qmap[q] for g in hist for q in g[1:]) + 1
        if Wc < need or S.shape != (2 * Wc, 2 * Wc):
            raise Violation('conjugation', 'to_symplectic_form', f'tableau of shape {R.shape},{S.shape} for a circuit that reaches qubit {need - 1}')
        if not dp.is_symplectic(S):
            raise Violation('conjugation', 'to_symplectic_form', f'S is not symplectic on a {Wc}-qubit register')
        inside = [q for q in qmap if q < Wc]
        cand = Cand(hist)
        U = dp.history_unitary(hist, k)
        Ud = U.conj().T
        ap = self.nq.sim.clifford.apply_clifford_on_pauli
        rest = int(op.get('rest', 0))
        for pk in op['p']:
            pc = _bits(pk, k)
            P = np.zeros(2 * Wc + 2, dtype=np.uint8)
            for j in range(Wc):  # arbitrary Pauli on the untouched qubits: it must come back unchanged
                if j not in qmap:
                    P[2 + j], P[2 + Wc + j] = (rest >> j) & 1, (rest >> (16 + j)) & 1
            P[0], P[1] = pc[0], pc[1]
            for a, q in enumerate(qmap):
                if q < Wc:
                    P[2 + q], P[2 + Wc + q] = pc[2 + a], pc[2 + k + a]
                else:
                    pc[2 + a] = pc[2 + k + a] = 0
            try:
                o1 = circ.apply_pauli_F2(P.copy())
                o2 = ap(P.copy(), R, S)
            except Exception as e:
                raise Violation('unexpected_exception', 'apply_pauli_F2', f'{type(e).__name__}: {e} (register of {Wc} qubits)')
            for ox in (o1, o2):
                if not (isinstance(ox, np.ndarray) and ox.shape == (2 * Wc + 2,) and ox.max(initial=0) <= 1):
                    raise Violation('conjugation', 'apply_pauli_F2', f'result {ox!r} is not an F2 vector of length {2 * Wc + 2} (register of {Wc} qubits)')
            if not np.array_equal(o1, o2):
                raise Violation('conjugation', 'apply_pauli_F2', f'apply_pauli_F2 and the tableau of the same circuit disagree on a {Wc}-qubit register')
            o = np.asarray(o1)
            for j in range(Wc):
                if j not in qmap and (o[2 + j] != P[2 + j] or o[2 + Wc + j] != P[2 + Wc + j]):
                    raise Violation('conjugation', 'apply_pauli_F2', f'gates on qubits {qmap} of a {Wc}-qubit register changed the Pauli on untouched qubit {j} (history {list(hist)})')
            oc = np.array([o[0], o[1]] + [o[2 + q] if q < Wc else 0 for q in qmap] + [o[2 + Wc + q] if q < Wc else 0 for q in qmap], dtype=np.uint8)
            if not _close(dp.pauli_matrix(oc), Ud @ dp.pauli_matrix(pc) @ U):
                raise Violation('conjugation', 'apply_pauli_F2', f'on a {Wc}-qubit register with gates {list(hist)} relabelled onto qubits {qmap}: image {oc.tolist()} of {pc.tolist()} (compact encoding) is not U^dagger P U')
        self.log.add('wide', W, qmap, R, S)
        self.bump('wide_register_circuits')
        self.stats['max.register_width'] = max(self.stats.get('max.register_width', 0), Wc)
        self.bump('appends', len(hist))
        self.bump('queries')
        self.shape.append('W')
        self.checked_queries = getattr(self, 'checked_queries', 0) + 1

    def do_conc(self, world, op):
        """two simulated caller threads, each querying its own circuit; hand-overs decided by op['quanta']"""
        fns = {'form': self.do_form, 'apply': self.do_apply, 'auto': self.do_auto,
               'apply_all': lambda w, o, cc, ci: self.do_apply(w, o, cc, ci, all_=True)}
        sides = [op['a'], op['b']]
        if op.get('first'):
            sides.reverse()
        caps = []
        for s in sides:
            c = s['c']
            circ = self.get_circ(c)
            if c in self.unspecified or any(len(cand.hist) == 0 for cand in self.cands[c]):
                return
            self.mode = 'capture'
            try:
                fns[s['op']](world, s, c, circ)
                return  # the query declined before touching the SUT (ambiguous width): nothing to run
            except _Capture as cap:
                caps.append(cap)
            finally:
                self.mode = None
        if caps[0].circ is caps[1].circ:
            return
        il = faults.Interleaver()
        res = il.run([(lambda cap=cap: cap.fn_on(cap.circ)) for cap in caps], list(op['quanta']))
        self.bump('fault.thread_preemption.configured', len(op['quanta']))
        self.bump('fault.thread_preemption.fired', il.switches)
        self.bump('conc_ops')
        if il.switches:
            self.bump('conc_ops_with_a_switch')
        self.stats['max.points_in_one_conc'] = max(self.stats.get('max.points_in_one_conc', 0), il.points)
        self.log.add('conc', il.points, il.switches, [r[0] for r in res])
        for s, r in zip(sides, res):
            c = s['c']
            self.mode, self.pre = 'replay', r
            try:
                fns[s['op']](world, s, c, self.circ[c])
            finally:
                self.mode = None
            self.bump('queries')
            self.bump(f"q.conc.{s['op']}")
            self.shape.append('T')
            self.checked_queries = getattr(self, 'checked_queries', 0) + 1
            self.last_kind[c] = 'q'

    def check_handed_out(self):
        for Ro, So, Rc, Sc, hist in self.handed:
            if not (np.array_equal(Ro, Rc) and np.array_equal(So, Sc)):
                raise Violation('result_stability', 'to_symplectic_form', f'the tableau returned by an earlier query (history {hist}) was rewritten in place by a later operation: it no longer describes the gates it was computed for')
        if self.handed:
            self.bump('handed_out_tableaux_rechecked', len(self.handed))

    def step(self, world, i, op):
        self._step(world, i, op)
        self.check_handed_out()

    def _step(self, world, i, op):
        kind = op['op']
        if kind == 'wipe':
            world.cache_wipe()
            self.bump('fault.cache_wipe.configured')
            self.bump('fault.cache_wipe.fired')
            self.log.add('wipe')
            self.shape.append('w')
            return
        if kind == 'conc':
            self.do_conc(world, op)
            return
        if kind == 'wide':
            self.do_wide(world, op)
            return
        c = op.get('c', 0)
        circ = self.get_circ(c)
        if c in self.unspecified:
            return
        if kind in ('append', 'ident', 'rand1', 'rand2'):
            if kind == 'append':
                name, q = op['g'], list(op['q'])
                if len(q) == 2 and q[0] == q[1]:
                    return
                mname = 'CNOT' if (name == 'CX' and op.get('alias')) else name
                qq = [np.int64(v) for v in q] if op.get('npint') else q
                st, _ = self.call(world, op, lambda x: getattr(x, mname)(*qq), circ, name)
                branches = [(name, *q)]
            elif kind == 'ident':
                q = list(op['q'])
                st, _ = self.call(world, op, lambda x: x.I(*q), circ, 'I')
                branches = [None]
            else:
                q = list(op['q'])
                if len(q) == 2 and q[0] == q[1]:
                    return
                circ.np_rng.script.append(int(op['pick']))
                if kind == 'rand1':
                    st, _ = self.call(world, op, lambda x: x.random_one_qubit_gate(*q), circ, 'random_one_qubit_gate')
                    branches = [None if g == 'I' else (g, *q) for g in RAND1]
                else:
                    st, _ = self.call(world, op, lambda x: x.random_two_qubit_gate(*q), circ, 'random_two_qubit_gate')
                    branches = [(g, *q) for g in TWO]
                del circ.np_rng.script[:]
            new = []
            for cand in self.cands[c]:
                for b in branches:
                    new.append(Cand(cand.hist + ((b,) if b is not None else ())))
                if st == 'faulted' and None not in branches:
                    new.append(cand)  # an interrupted append is either in or out, never half
            ded = {}
            for cand in new:
                ded.setdefault(cand.hist, cand)
            self.cands[c] = list(ded.values())
            self.stats['probe.max.candidates'] = max(self.stats.get('probe.max.candidates', 0), len(self.cands[c]))
            self.log.add(kind, c, op.get('g', ''), q, st)
            if len(self.cands[c]) > RESOLVE_AT:
                # too many unresolved possibilities (random gates / interrupted appends): the simulator issues a
                # fault-free tableau query to resolve them; if that is impossible (the circuit may still be empty)
                # it stops checking this circuit rather than guess (never truncates the candidate set)
                if all(len(cand.hist) > 0 for cand in self.cands[c]):
                    self.bump('probe.forced_resolution_queries')
                    self.do_form(world, {'op': 'form', 'c': c}, c, circ)
                    self.shape.append('q')
                    self.last_kind[c] = 'q'
                    self.checked_queries = getattr(self, 'checked_queries', 0) + 1
                elif len(self.cands[c]) > MAX_CANDS:
                    self.unspecified.add(c)
                    self.bump('probe.candidate_overflow_stopped_checking')
            self.bump('appends')
            self.shape.append('a' if st == 'ok' else 'A')
            if self.last_kind.get(c) == 'q':
                self.seen_q_then_a[c] = True
            self.last_kind[c] = 'a'
            return
        if kind == 'fork':
            # deep-copy the circuit into the other slot and keep using BOTH objects: later appends to one must not leak into the other
            c2 = 1 - c
            try:
                self.circ[c2] = copy.deepcopy(circ)
            except Exception as e:
                raise Violation('unexpected_exception', 'copy', f'{type(e).__name__}: {e}')
            self.cands[c2] = [Cand(x.hist) for x in self.cands[c]]
            self.unspecified.discard(c2)
            self.last_kind[c2] = self.last_kind.get(c)
            self.bump('forks')
            self.log.add('fork', c, c2)
            self.shape.append('f')
            return
        if kind == 'clone':
            # continue with a deep copy (or a pickle round trip) of the circuit object: the copy must carry the whole history
            import pickle
            try:
                self.circ[c] = copy.deepcopy(circ) if op.get('how', 'deepcopy') == 'deepcopy' else self._pickle_roundtrip(circ)
            except Exception as e:
                raise Violation('unexpected_exception', 'copy', f'{type(e).__name__}: {e}')
            self.bump('clones')
            self.log.add('clone', c, op.get('how', 'deepcopy'))
            self.shape.append('k')
            return
        if kind == 'reject':
            self.do_reject(world, op, c, circ)
            self.shape.append('r')
            return
        # queries: only once every candidate history is non-empty
        if any(len(cand.hist) == 0 for cand in self.cands[c]):
            self.bump('queries_skipped_empty')
            return
        fn = {'form': self.do_form, 'apply': self.do_apply, 'auto': self.do_auto, 'export': self.do_export, 'nq': self.do_nq,
              'compose': self.do_compose, 'apply_all': lambda w, o, cc, ci: self.do_apply(w, o, cc, ci, all_=True)}[kind]
        r = fn(world, op, c, circ)
        if r is None:
            self.bump('queries_skipped_ambiguous')
            return
        self.bump('queries' if r else 'queries_faulted')
        self.bump(f'q.{kind}')
        self.shape.append('q' if r else 'Q')
        if r:
            self.checked_queries = getattr(self, 'checked_queries', 0) + 1
            if self.seen_q_then_a.get(c) and self.last_kind.get(c) == 'a':
                self.bump('queries_after_append_after_query')
        self.last_kind[c] = 'q'


def execute(plan, keep_events=False):
    cfg = plan['config']
    sim = Sim(plan, keep_events)
    violation = None
    with seams.World(random.Random(cfg.get('entropy', 0)), lru_maxsize=cfg.get('lru')) as world:
        sim.log.add('start', cfg.get('nmax'), cfg.get('lru'))
        i = -1
        try:
            for i, op in enumerate(plan['ops']):
                sim.step(world, i, op)
        except Violation as v:
            violation = {'oracle': v.oracle, 'api': v.api, 'op_index': i, 'detail': v.detail, 'op': plan['ops'][i]}
            sim.log.add('violation', v.oracle, v.api, i)
        except Exception as e:
            # safety net: an exception raised *inside numqi code* that escaped the per-call wrappers is the SUT's, not the harness's
            import traceback
            tb = traceback.extract_tb(e.__traceback__)
            if not tb or '/numqi/' not in tb[-1].filename:
                raise
            violation = {'oracle': 'unexpected_exception', 'api': tb[-1].name, 'op_index': i, 'detail': f'{type(e).__name__}: {e} (raised in {tb[-1].filename.split("/numqi/")[-1]}:{tb[-1].lineno})', 'op': plan['ops'][i]}
            sim.log.add('violation', 'unexpected_exception', tb[-1].name, i)
    sim.bump('ops', len(plan['ops']))
    res = {
        'digest': sim.log.hexdigest(),
        'violation': violation,
        'stats': sim.stats,
        'cover': {k: sorted(v) for k, v in sim.cover.items() if v},
        'shape': ''.join(sim.shape)[:40],
        'nontrivial': bool(sim.stats.get('appends', 0) >= 1 and getattr(sim, 'checked_queries', 0) >= 1),
        'plan_digest': trace.digest(repr(plan['ops'])),
    }
    if keep_events:
        res['events'] = sim.log.events
    return res


def evidence_extra(stats, cover, results):
    return {
        'state_coverage': {
            'reached_1q_tableaux': len(cover.get('tab1', ())), 'of_1q': 24,
            'reached_2q_tableaux': len(cover.get('tab2', ())), 'of_2q': 11520,
            'reached_3plus_q_tableaux': len(cover.get('tab3p', ())),
            'measure': 'distinct (r,S) tableaux returned by to_symplectic_form and verified against the dense model',
        },
        'simulated_time': {'unit': 'logical steps (C07 has no clock)', 'ops_total': stats.get('ops', 0)},
        'queries_after_append_after_query': stats.get('queries_after_append_after_query', 0),
    }
