"""Membership predicates of the sets numqi.random advertises (DESIGN §4, oracle P2, Appendix A).

Each predicate returns None if the value is a member, else a short reason. Written against the documented return
contract (shape / dtype / defining equations), not against numqi's construction. Tolerance 1e-9 absolute on O(1)
quantities (measured worst case on the unchanged tree ~1e-12)."""
import itertools
import math
import numpy as np

TOL = 1e-9


def _is_arr(x, shape=None, kinds=None):
    if not isinstance(x, np.ndarray):
        return f'not an ndarray ({type(x).__name__})'
    if shape is not None and tuple(x.shape) != tuple(shape):
        return f'shape {x.shape}, expected {tuple(shape)}'
    if kinds is not None and x.dtype.kind not in kinds:
        return f'dtype {x.dtype}, expected kind in {kinds}'
    if x.dtype.kind in 'fc' and not np.all(np.isfinite(x)):
        return 'non-finite entries'
    return None


def _herm(x):
    return np.abs(x - x.conj().swapaxes(-1, -2)).max() < TOL


def _psd(x):
    return np.linalg.eigvalsh((x + x.conj().T) / 2).min() > -TOL


def _rank(x, tol=1e-10):
    s = np.linalg.svd(x, compute_uv=False)
    return int((s > tol * max(1.0, s.max())).sum())


def haar_state(a, v):
    e = _is_arr(v, (a['dim'],), 'c' if a['tag_complex'] else 'f')
    if e:
        return e
    if abs(np.linalg.norm(v) - 1) > TOL:
        return f'norm {np.linalg.norm(v)}'


def haar_unitary(a, v):
    d = a['dim']
    e = _is_arr(v, (d, d), 'c')
    if e:
        return e
    if np.abs(v @ v.conj().T - np.eye(d)).max() > TOL:
        return 'U U^dagger != I'


def special_orthogonal(a, v):
    d, b = a['dim'], a['batch_size']
    shape = (d, d) if b is None else (b, d, d)
    e = _is_arr(v, shape, 'c' if a['tag_complex'] else 'f')
    if e:
        return e
    for u in (v.reshape(-1, d, d)):
        if np.abs(u @ u.conj().T - np.eye(d)).max() > TOL:
            return 'not unitary/orthogonal'
        if abs(np.linalg.det(u) - 1) > 1e-8:
            return f'det {np.linalg.det(u)}'


def density_matrix(a, v):
    d = a['dim']
    k = d if a['k'] is None else a['k']
    e = _is_arr(v, (d, d), 'c')
    if e:
        return e
    if not _herm(v):
        return 'not Hermitian'
    if not _psd(v):
        return 'not PSD'
    if abs(np.trace(v) - 1) > TOL:
        return f'trace {np.trace(v)}'
    if _rank(v) != k:
        return f'rank {_rank(v)}, requested {k}'


def kraus_op(a, v):
    t, di, do = a['num_term'], a['dim_in'], a['dim_out']
    e = _is_arr(v, (t, do, di), 'c' if a['tag_complex'] else 'f')
    if e:
        return e
    s = sum(k.conj().T @ k for k in v)
    if np.abs(s - np.eye(di)).max() > 1e-8:
        return f'sum K^dagger K != I (dev {np.abs(s - np.eye(di)).max():.3g})'


def choi_op(a, v):
    di, do = a['dim_in'], a['dim_out']
    e = _is_arr(v, (di * do, di * do), 'c')
    if e:
        return e
    if not _herm(v):
        return 'not Hermitian'
    if np.linalg.eigvalsh((v + v.conj().T) / 2).min() < -1e-8:
        return 'not PSD'
    t = np.einsum('iaja->ij', v.reshape(di, do, di, do))
    if np.abs(t - np.eye(di)).max() > 1e-8:
        return f'Tr_out C != I (dev {np.abs(t - np.eye(di)).max():.3g})'
    if a['rank'] is not None and _rank(v, 1e-9) > a['rank']:
        return f'rank {_rank(v, 1e-9)} > requested {a["rank"]}'


def povm(a, v):
    d, t = a['dim'], a['num_term']
    e = _is_arr(v, (t, d, d), 'fc')
    if e:
        return e
    for x in v:
        if not _herm(x) or np.linalg.eigvalsh((x + x.conj().T) / 2).min() < -1e-8:
            return 'element not Hermitian PSD'
    if np.abs(v.sum(axis=0) - np.eye(d)).max() > 1e-8:
        return 'sum != I'


def bipartite_state(a, v):
    dA = a['dimA']
    dB = dA if a['dimB'] is None else a['dimB']
    N = dA * dB
    if a['return_dm']:
        e = _is_arr(v, (N, N), 'c')
        if e:
            return e
        if not _herm(v) or abs(np.trace(v) - 1) > TOL or np.abs(v @ v - v).max() > 1e-8:
            return 'not a rank-1 projector of trace 1'
        w, U = np.linalg.eigh(v)
        psi = U[:, -1]
    else:
        e = _is_arr(v, (N,), 'c')
        if e:
            return e
        if abs(np.linalg.norm(v) - 1) > TOL:
            return f'norm {np.linalg.norm(v)}'
        psi = v
    if a['k'] is not None:
        r = _rank(psi.reshape(dA, dB), 1e-9)
        if r != a['k']:
            return f'Schmidt rank {r}, requested {a["k"]}'


def _ppt(v, dA, dB):
    pt = v.reshape(dA, dB, dA, dB).transpose(0, 3, 2, 1).reshape(dA * dB, dA * dB)
    return np.linalg.eigvalsh((pt + pt.conj().T) / 2).min() > -1e-9


def separable_dm(a, v):
    dA = a['dimA']
    dB = dA if a['dimB'] is None else a['dimB']
    N = dA * dB
    e = _is_arr(v, (N, N), 'c')
    if e:
        return e
    if not _herm(v) or not _psd(v) or abs(np.trace(v) - 1) > TOL:
        return 'not a density matrix'
    if not _ppt(v, dA, dB):
        return 'partial transpose has a negative eigenvalue (not separable)'
    if a['pure_term'] and _rank(v, 1e-9) > a['k']:
        return f'rank {_rank(v, 1e-9)} > number of pure terms {a["k"]}'


def hermitian_matrix(a, v):
    d = a['d']
    e = _is_arr(v, (d, d), 'c' if a['tag_complex'] else 'f')
    if e:
        return e
    if not _herm(v):
        return 'not Hermitian'
    if a['eig'] is not None:
        w = np.linalg.eigvalsh(v)
        lo, hi = a['eig']
        if w.min() < lo - 1e-8 or w.max() > hi + 1e-8:
            return f'spectrum [{w.min()},{w.max()}] outside [{lo},{hi}]'


def channel_matrix_space(a, v):
    d, t = a['dim_in'], a['num_term']
    e = _is_arr(v, (t, d, d), 'fc')
    if e:
        return e
    if np.abs(v[0] - np.eye(d)).max() > TOL:
        return 'first element is not the identity'
    if not _herm(v):
        return 'not all Hermitian'


def channel_matrix_subspace(a, v):
    d = a['dim_in']
    nh = a['num_hermite']
    if isinstance(nh, (list, tuple)):
        ns, na = nh
        e = _is_arr(v, (ns + na, d, d), 'f')
        if e:
            return e
        if np.abs(v[0] - np.eye(d)).max() > TOL:
            return 'first element is not the identity'
        if np.abs(v[:ns] - v[:ns].transpose(0, 2, 1)).max() > TOL:
            return 'symmetric block not symmetric'
        if na and np.abs(v[ns:] + v[ns:].transpose(0, 2, 1)).max() > TOL:
            return 'antisymmetric block not antisymmetric'
        n = ns + na
    else:
        e = _is_arr(v, (nh, d, d), 'fc')
        if e:
            return e
        if np.abs(v[0] - np.eye(d)).max() > TOL:
            return 'first element is not the identity'
        if not _herm(v):
            return 'not all Hermitian'
        n = nh
    if _rank(v.reshape(n, -1), 1e-9) != n:
        return 'elements are linearly dependent'


def abk_density_matrix(a, v):
    dA, dB, k = a['dimA'], a['dimB'], a['kext']
    N = dA * dB ** k
    e = _is_arr(v, (N, N), 'c')
    if e:
        return e
    if not _herm(v) or np.linalg.eigvalsh((v + v.conj().T) / 2).min() < -1e-8 or abs(np.trace(v) - 1) > 1e-8:
        return 'not a density matrix'
    t = v.reshape([dA] + [dB] * k + [dA] + [dB] * k)
    for perm in itertools.permutations(range(k)):
        ax = [0] + [1 + p for p in perm] + [k + 1] + [k + 2 + p for p in perm]
        if np.abs(np.transpose(t, ax) - t).max() > 1e-8:
            return f'not invariant under permutation {perm} of the B copies'


def reducible_matrix_subspace(a, v):
    part = a['partition']
    N = sum(part)
    if a['return_unitary']:
        if not (isinstance(v, tuple) and len(v) == 2):
            return 'expected (matrix_subspace, unitary)'
        M, U = v
    else:
        M, U = v, None
    e = _is_arr(M, (a['num_matrix'], N, N), 'f')
    if e:
        return e
    if U is not None:
        e = _is_arr(U, (N, N), 'f')
        if e:
            return e
        if np.abs(U @ U.T - np.eye(N)).max() > TOL:
            return 'U not orthogonal'
        B = U @ M @ U.T
        mask = np.zeros((N, N), dtype=bool)
        o = 0
        for p in part:
            mask[o:o + p, o:o + p] = True
            o += p
        if np.abs(B[:, ~mask]).max() > 1e-8:
            return 'U M U^T is not block diagonal w.r.t. the partition'


def symmetric_inner_product(a, v):
    N = a['N0']
    if not (isinstance(v, tuple) and len(v) == 2):
        return 'expected (matB, matU)'
    B, U = v
    e = _is_arr(U, (N, N), 'f')
    if e:
        return e
    if not isinstance(B, np.ndarray) or B.ndim != 3 or B.shape[1:] != (N, N) or B.shape[0] < 1:
        return f'matB shape {getattr(B, "shape", None)}'
    for b in B:
        x = b @ U - U.T @ b
        if np.abs(x + x.T).max() > 1e-7:
            return 'x^T B U x != x^T U^T B x'


def orthonormal_matrix_basis(a, v):
    no, dq, nq = a['num_orthonormal'], a['dim_qudit'], a['num_qudit']
    D = dq ** nq
    lst = [v] if a['num_sample'] is None else v
    if a['num_sample'] is not None and (not isinstance(v, list) or len(v) != a['num_sample']):
        return f'expected a list of {a["num_sample"]} samples'
    for s in lst:
        n = no * D + (1 if a['with_I'] else 0)
        e = _is_arr(s, (n, D, D), 'fc')
        if e:
            return e
        t = s
        if a['with_I']:
            if np.abs(s[0] - np.eye(D)).max() > TOL:
                return 'leading element is not I'
            t = s[1:]
        t = t.reshape(no, D, D, D)
        for basis in t:
            if np.abs(basis.sum(axis=0) - np.eye(D)).max() > 1e-8:
                return 'projectors of one basis do not sum to I'
            for P in basis:
                if not _herm(P) or np.abs(P @ P - P).max() > 1e-8 or abs(np.trace(P) - 1) > 1e-8:
                    return 'element is not a rank-1 projector'


def adjacent_matrix(a, v):
    d = a['dim']
    e = _is_arr(v, (d, d), 'u')
    if e:
        return e
    if v.dtype != np.uint8 or v.max() > 1 or not np.array_equal(v, v.T) or np.diag(v).any():
        return 'not a symmetric 0/1 uint8 matrix with zero diagonal'


def _size_shape(size):
    if size is None:
        return ()
    if isinstance(size, (list, tuple)):
        return tuple(size)
    return (int(size),)


def n_sphere(a, v):
    e = _is_arr(v, _size_shape(a['size']) + (a['dim'],), 'f')
    if e:
        return e
    if np.abs(np.linalg.norm(v, axis=-1) - 1).max() > TOL:
        return 'not on the unit sphere'


def n_ball(a, v):
    e = _is_arr(v, _size_shape(a['size']) + (a['dim'],), 'f')
    if e:
        return e
    if np.linalg.norm(v, axis=-1).max() > 1 + TOL:
        return 'outside the unit ball'


def f2(a, v):
    e = _is_arr(v, tuple(a['size']), 'u')
    if e:
        return e
    if v.dtype != np.uint8 or (v.size and v.max() > 1):
        return 'not uint8 0/1'
    if a['not_zero'] and not v.any():
        return 'all zero despite not_zero'
    if a['not_one'] and v.all():
        return 'all one despite not_one'


def _sympl(S, n):
    if not (isinstance(S, np.ndarray) and S.shape == (2 * n, 2 * n) and S.dtype == np.uint8 and S.max() <= 1):
        return 'not a uint8 0/1 2n x 2n matrix'
    L = np.zeros((2 * n, 2 * n), dtype=np.int64)
    L[:n, n:] = np.eye(n, dtype=np.int64)
    L[n:, :n] = np.eye(n, dtype=np.int64)
    Si = S.astype(np.int64)
    if not np.array_equal((Si @ L @ Si.T) % 2, L):
        return 'S L S^T != L over F2'


def spf2(a, v, nq=None):
    n = a['n']
    kind = a['return_kind']
    if kind == 'matrix':
        return _sympl(v, n)
    if kind == 'int_tuple':
        if not (isinstance(v, tuple) and len(v) == 2 * n and all(isinstance(x, int) and x >= 0 for x in v)):
            return 'not a tuple of 2n non-negative ints'
        if nq is not None:
            base = nq.group.spf2.get_number(n, kind='base')
            if any(x >= b for x, b in zip(v, base)):
                return 'int tuple outside its mixed-radix base'
        return None
    if not (isinstance(v, tuple) and len(v) == 2):
        return 'expected (int_tuple, matrix)'
    e = _sympl(v[1], n)
    if e:
        return e
    if nq is not None and not np.array_equal(nq.group.spf2.from_int_tuple(v[0]), v[1]):
        return 'int tuple and matrix disagree'


def clifford_group(a, v):
    n = a['n']
    if not (isinstance(v, tuple) and len(v) == 2):
        return 'expected (r, S)'
    r, S = v
    if not (isinstance(r, np.ndarray) and r.shape == (2 * n,) and r.dtype == np.uint8 and r.max() <= 1):
        return 'r is not a uint8 0/1 vector of length 2n'
    return _sympl(S, n)


_P1 = {(0, 0): np.eye(2), (1, 0): np.array([[0, 1], [1, 0]]), (0, 1): np.array([[1, 0], [0, -1]]), (1, 1): np.array([[0, 1], [1, 0]]) @ np.array([[1, 0], [0, -1]])}


def pauli(a, v):
    n = a['n']
    F2 = getattr(v, 'F2', None)
    if not (isinstance(F2, np.ndarray) and F2.shape == (2 * n + 2,) and F2.dtype == np.uint8 and F2.max() <= 1):
        return 'F2 is not a uint8 0/1 vector of length 2n+2'
    m = np.array([[1.0 + 0j]])
    for x, z in zip(F2[2:2 + n], F2[2 + n:]):
        m = np.kron(m, _P1[(int(x), int(z))])
    m = (1j ** (2 * int(F2[0]) + int(F2[1]))) * m
    h = np.abs(m - m.conj().T).max() < 1e-12
    ah = np.abs(m + m.conj().T).max() < 1e-12
    if a['is_hermitian'] is True and not h:
        return 'requested Hermitian, got anti-Hermitian'
    if a['is_hermitian'] is False and not ah:
        return 'requested anti-Hermitian, got Hermitian'
    if not (h or ah):
        return 'neither Hermitian nor anti-Hermitian'
