"""Independent dense reference model for C07 (DESIGN §3): gate history -> dense unitary, phased Pauli -> dense matrix.

Shares no code with numqi: own 2x2 constants, own kron embedding. Qubit 0 is the most significant tensor factor
(numqi's convention, read off PauliOperator.full_matrix and sim.state.apply_gate).
Phased Pauli convention (read off numqi.gate.pauli_F2_to_str): F2 = [b0, b1, x_0..x_{n-1}, z_0..z_{n-1}] denotes
    i^(2 b0 + b1) * kron_j X^{x_j} Z^{z_j}
"""
import functools
import numpy as np

I2 = np.eye(2, dtype=np.complex128)
X = np.array([[0, 1], [1, 0]], dtype=np.complex128)
Y = np.array([[0, -1j], [1j, 0]], dtype=np.complex128)
Z = np.array([[1, 0], [0, -1]], dtype=np.complex128)
H = np.array([[1, 1], [1, -1]], dtype=np.complex128) / np.sqrt(2)
S = np.array([[1, 0], [0, 1j]], dtype=np.complex128)
P0 = np.array([[1, 0], [0, 0]], dtype=np.complex128)
P1 = np.array([[0, 0], [0, 1]], dtype=np.complex128)

ONE = {'X': X, 'Y': Y, 'Z': Z, 'H': H, 'S': S}
TWO = {'CX': X, 'CY': Y, 'CZ': Z}
SINGLE_NAMES = ['X', 'Y', 'Z', 'H', 'S']
TWO_NAMES = ['CX', 'CY', 'CZ']


def kron_all(mats):
    return functools.reduce(np.kron, mats)


def embed1(g, q, n):
    return kron_all([g if j == q else I2 for j in range(n)])


def embed_ctrl(g, c, t, n):
    a = kron_all([P0 if j == c else I2 for j in range(n)])
    b = kron_all([P1 if j == c else (g if j == t else I2) for j in range(n)])
    return a + b


def gate_matrix(gate, n):
    name = gate[0]
    if name in ONE:
        return embed1(ONE[name], gate[1], n)
    return embed_ctrl(TWO[name], gate[1], gate[2], n)


def history_width(hist):
    return (max(q for g in hist for q in g[1:]) + 1) if hist else 0


def history_unitary(hist, n=None):
    """first gate in the list is applied first: U = g_N ... g_2 g_1"""
    if n is None:
        n = history_width(hist)
    U = np.eye(2 ** n, dtype=np.complex128)
    for g in hist:
        U = gate_matrix(g, n) @ U
    return U


def pauli_matrix(F2):
    F2 = [int(v) for v in F2]
    n = (len(F2) - 2) // 2
    x, z = F2[2:2 + n], F2[2 + n:]
    mats = [np.linalg.matrix_power(X, xj) @ np.linalg.matrix_power(Z, zj) for xj, zj in zip(x, z)]
    return (1j ** (2 * F2[0] + F2[1])) * kron_all(mats)


def conj_dagger(U, F2):
    """U^dagger P U as a dense matrix"""
    return U.conj().T @ pauli_matrix(F2) @ U


def generators(n):
    """F2 encodings (phase bits 0) of X_j and Z_j"""
    out = []
    for j in range(2 * n):
        v = [0] * (2 * n + 2)
        v[2 + j] = 1
        out.append(v)
    return out


def all_phased_paulis(n):
    out = []
    for k in range(4 ** (n + 1)):
        out.append([(k >> i) & 1 for i in range(2 * n + 2)])
    return out


def is_symplectic(Smat):
    Smat = np.asarray(Smat).astype(np.int64)
    n = Smat.shape[0] // 2
    L = np.zeros((2 * n, 2 * n), dtype=np.int64)
    L[:n, n:] = np.eye(n, dtype=np.int64)
    L[n:, :n] = np.eye(n, dtype=np.int64)
    return bool(np.array_equal((Smat.T @ L @ Smat) % 2, L))
