"""Bit-mask Born-rule reference model for C11 (DESIGN §5). No reshapes/einsum: index arithmetic only, so it shares no
index trick with numqi. Qubit 0 is the most significant bit of the basis index (numqi's |0123> convention)."""
import numpy as np


def bit(i, q, n):
    return (i >> (n - 1 - q)) & 1


def outcome_index(i, S, n):
    a = 0
    for q in S:
        a = (a << 1) | bit(i, q, n)
    return a


def marginals(psi, S):
    psi = np.asarray(psi)
    N = psi.shape[0]
    n = N.bit_length() - 1
    p = np.zeros(2 ** len(S), dtype=np.float64)
    a2 = np.abs(psi.astype(np.complex128)) ** 2
    for i in range(N):
        p[outcome_index(i, S, n)] += a2[i]
    return p


def project(psi, S, a):
    psi = np.asarray(psi).astype(np.complex128)
    N = psi.shape[0]
    n = N.bit_length() - 1
    out = np.zeros(N, dtype=np.complex128)
    for i in range(N):
        if outcome_index(i, S, n) == a:
            out[i] = psi[i]
    nrm = np.sqrt(np.sum(np.abs(out) ** 2))
    return out / nrm


def apply_gate(psi, U, targets):
    """U acts on `targets` (ordered: targets[0] is the most significant bit of U's index)"""
    psi = np.asarray(psi).astype(np.complex128)
    N = psi.shape[0]
    n = N.bit_length() - 1
    k = len(targets)
    out = np.zeros(N, dtype=np.complex128)
    for i in range(N):
        if psi[i] == 0:
            continue
        col = 0
        for q in targets:
            col = (col << 1) | bit(i, q, n)
        base = i
        for q in targets:
            base &= ~(1 << (n - 1 - q))
        for row in range(2 ** k):
            u = U[row, col]
            if u == 0:
                continue
            j = base
            for t, q in enumerate(targets):
                if (row >> (k - 1 - t)) & 1:
                    j |= 1 << (n - 1 - q)
            out[j] += u * psi[i]
    return out


def apply_controlled(psi, U, controls, targets):
    psi = np.asarray(psi).astype(np.complex128)
    N = psi.shape[0]
    n = N.bit_length() - 1
    on = np.zeros(N, dtype=np.complex128)
    off = np.zeros(N, dtype=np.complex128)
    for i in range(N):
        if all(bit(i, c, n) for c in controls):
            on[i] = psi[i]
        else:
            off[i] = psi[i]
    return off + apply_gate(on, U, list(targets))


# ---- gate constants (own copies) ----
SQ2 = np.sqrt(0.5)
G = {
    'H': np.array([[SQ2, SQ2], [SQ2, -SQ2]], dtype=np.complex128),
    'X': np.array([[0, 1], [1, 0]], dtype=np.complex128),
    'Y': np.array([[0, -1j], [1j, 0]], dtype=np.complex128),
    'Z': np.array([[1, 0], [0, -1]], dtype=np.complex128),
    'S': np.array([[1, 0], [0, 1j]], dtype=np.complex128),
    'T': np.array([[1, 0], [0, np.exp(0.25j * np.pi)]], dtype=np.complex128),
}


def rx(t):
    c, s = np.cos(t / 2), np.sin(t / 2)
    return np.array([[c, -1j * s], [-1j * s, c]], dtype=np.complex128)


def ry(t):
    c, s = np.cos(t / 2), np.sin(t / 2)
    return np.array([[c, -s], [s, c]], dtype=np.complex128)


def rz(t):
    return np.array([[np.exp(-0.5j * t), 0], [0, np.exp(0.5j * t)]], dtype=np.complex128)


def make_state(kind, n, seed):
    """deterministic structured / random states; harness-owned (not SUT)"""
    r = np.random.Generator(np.random.PCG64(int(seed)))
    N = 2 ** n
    if kind == 'haar':
        v = r.normal(size=N) + 1j * r.normal(size=N)
    elif kind == 'real':
        v = r.normal(size=N).astype(np.float64)
        return v / np.linalg.norm(v)
    elif kind == 'product':
        v = np.array([1.0 + 0j])
        for _ in range(n):
            a = r.normal(size=2) + 1j * r.normal(size=2)
            v = np.kron(v, a / np.linalg.norm(a))
    elif kind == 'product01':  # product of |0>,|1>,|+>,|-> : many exactly-zero and exactly-equal probabilities
        v = np.array([1.0 + 0j])
        tab = [np.array([1, 0]), np.array([0, 1]), np.array([SQ2, SQ2]), np.array([SQ2, -SQ2])]
        for _ in range(n):
            v = np.kron(v, tab[int(r.integers(0, 4))].astype(np.complex128))
    elif kind == 'ghz':
        v = np.zeros(N, dtype=np.complex128)
        v[0] = 1
        v[N - 1] = np.exp(1j * r.uniform(0, 2 * np.pi))
    elif kind == 'w':
        v = np.zeros(N, dtype=np.complex128)
        for q in range(n):
            v[1 << q] = 1
    elif kind == 'basis':
        v = np.zeros(N, dtype=np.complex128)
        v[int(r.integers(0, N))] = 1
    elif kind == 'sparse':
        v = r.normal(size=N) + 1j * r.normal(size=N)
        mask = r.integers(0, 2, size=N).astype(bool)
        if mask.all():
            mask[int(r.integers(0, N))] = False
        v[mask] = 0
    elif kind == 'tiny':  # a few amplitudes ~1e-4..1e-5: outcomes with probability 1e-8..1e-10 that a real RNG can pick
        v = r.normal(size=N) + 1j * r.normal(size=N)
        mask = r.integers(0, 3, size=N) == 0
        if mask.all():
            mask[0] = False
        v[mask] *= 10.0 ** r.uniform(-5, -4, size=int(mask.sum()))
    elif kind == 'tiny2':  # amplitudes 1e-11..1e-9: outcomes with probability 1e-22..1e-18, far below float epsilon but not zero
        v = r.normal(size=N) + 1j * r.normal(size=N)
        mask = r.integers(0, 3, size=N) == 0
        if mask.all():
            mask[0] = False
        v[mask] *= 10.0 ** r.uniform(-11, -9, size=int(mask.sum()))
    else:
        raise ValueError(kind)
    v = v.astype(np.complex128)
    return v / np.linalg.norm(v)


STATE_KINDS = ['haar', 'real', 'product', 'product01', 'ghz', 'w', 'basis', 'sparse', 'tiny', 'tiny2']
